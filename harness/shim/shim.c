/* LD_PRELOAD shim used by `rvmon envprobe` (C12): it lets the monitor see which environment variables the code under
 * test asks for while an evaluation is running, and lets it move the clocks forward without waiting.
 * Nothing here changes a return value of getenv; clock_gettime results are shifted by the offset the harness asked for. */
#define _GNU_SOURCE
#include <dlfcn.h>
#include <stdio.h>
#include <stdlib.h>
#include <string.h>
#include <time.h>

static long long offset_ns = 0;
static int marked = 0;
static __thread int inside = 0;

void verif_shim_advance(long long seconds) { offset_ns += seconds * 1000000000LL; }
void verif_shim_mark(int on) { marked = on; }
int verif_shim_present(void) { return 1; }

char *getenv(const char *name) {
    static char *(*real)(const char *) = 0;
    if (!real) real = (char *(*)(const char *))dlsym(RTLD_NEXT, "getenv");
    if (marked && !inside) {
        inside = 1;
        const char *path = real("VERIF_SHIM_LOG");
        if (path) {
            FILE *f = fopen(path, "a");
            if (f) { fprintf(f, "%s\n", name); fclose(f); }
        }
        inside = 0;
    }
    return real(name);
}

int clock_gettime(clockid_t id, struct timespec *ts) {
    static int (*real)(clockid_t, struct timespec *) = 0;
    if (!real) real = (int (*)(clockid_t, struct timespec *))dlsym(RTLD_NEXT, "clock_gettime");
    int r = real(id, ts);
    if (r == 0 && offset_ns != 0 && (id == CLOCK_MONOTONIC || id == CLOCK_REALTIME || id == CLOCK_BOOTTIME || id == CLOCK_MONOTONIC_RAW)) {
        long long t = (long long)ts->tv_sec * 1000000000LL + ts->tv_nsec + offset_ns;
        ts->tv_sec = t / 1000000000LL;
        ts->tv_nsec = t % 1000000000LL;
    }
    return r;
}
