//! Coverage-guided leg (libFuzzer) for the evaluation properties C01 / C02: one input = one text; texts the parser accepts are
//! evaluated on a fixed input by reval and by the reference evaluator (`rvmon::fuzzleg::oracles_eval`).
#![no_main]

use libfuzzer_sys::fuzz_target;

fuzz_target!(|data: &[u8]| {
    let Ok(text) = std::str::from_utf8(data) else { return };
    if let Some((property, class)) = rvmon::fuzzleg::oracles_eval(text) {
        eprintln!("FUZZ-VIOLATION {property} {class}");
        eprintln!("FUZZ-TEXT {text:?}");
        std::process::abort()
    }
});
