//! Coverage-guided leg (libFuzzer) for the parser properties. One input = one text; the three oracles are
//! `rvmon::fuzzleg::oracles` (C06 no panic in Expr::parse / Rule::parse; C07 agreement with the reference lexer and
//! precedence-climbing parser; C16 the rendering of an accepted tree parses back to it). A finding is written as
//! `FUZZ-VIOLATION <property> <class>` and `FUZZ-TEXT <text>` to stderr before the process aborts, so that libFuzzer keeps
//! the input as an artifact and the driver (rvmon/src/fuzzleg.rs) can attribute it.
#![no_main]

use libfuzzer_sys::fuzz_target;

fuzz_target!(|data: &[u8]| {
    let Ok(text) = std::str::from_utf8(data) else { return };
    if let Some((property, class)) = rvmon::fuzzleg::oracles(text) {
        eprintln!("FUZZ-VIOLATION {property} {class}");
        eprintln!("FUZZ-TEXT {text:?}");
        std::process::abort()
    }
});
