//! C18, type-level half: exactly the auto-trait bounds the statement names, nothing else.
//! If one of them does not hold this crate does not compile (E0277); the C18 check reports that
//! diagnostic as the violation. It is also the literal precondition of the multi-threaded workload.

use reval::prelude::*;
use serde::Serialize;

fn is_send_sync<T: Send + Sync>() {}
fn is_send<T: Send>(_: &T) {}

#[derive(Serialize)]
struct Input {
    a: i32,
}

fn main() {
    is_send_sync::<RuleSet>();
    is_send_sync::<Rule>();
    is_send_sync::<Expr>();
    is_send_sync::<reval::expr::Index>();
    is_send_sync::<Value>();
    is_send_sync::<Symbols>();
    is_send_sync::<reval::Error>();
    is_send_sync::<reval::parse::Error>();
    is_send_sync::<reval::ruleset::Outcome<'static>>();

    let ruleset = ruleset().build();
    let value = Value::None;
    let expr = Expr::value(1);
    let input = Input { a: 1 };
    is_send(&expr.evaluate(&value));
    is_send(&ruleset.evaluate_value(&value));
    is_send(&ruleset.evaluate(&input));
    let _ = input.a;
}
