//! C18, type-level half: exactly the auto-trait bounds the statement names, nothing else.
//! If one of them does not hold this crate does not compile (E0277); the C18 check reports that
//! diagnostic as the violation. It is also the literal precondition of the multi-threaded workload.

use reval::prelude::*;
use serde::Serialize;

fn is_send_sync<T: Send + Sync>() {}
fn is_send<T: Send>(_: &T) {}

#[derive(Serialize)]
struct Input {
    a: i32,
}

/// an input that is shareable (Sync) but cannot itself be sent to another thread: data seen through a lock guard
struct Locked(std::sync::MutexGuard<'static, i32>);
impl Serialize for Locked {
    fn serialize<S: serde::Serializer>(&self, s: S) -> Result<S::Ok, S::Error> {
        s.serialize_i32(*self.0)
    }
}

fn main() {
    is_send_sync::<RuleSet>();
    is_send_sync::<Rule>();
    is_send_sync::<Expr>();
    is_send_sync::<reval::expr::Index>();
    is_send_sync::<Value>();
    is_send_sync::<Symbols>();
    is_send_sync::<reval::Error>();
    is_send_sync::<reval::parse::Error>();
    is_send_sync::<reval::ruleset::Outcome<'static>>();

    let ruleset = ruleset().build();
    let value = Value::None;
    let expr = Expr::value(1);
    let input = Input { a: 1 };
    is_send(&expr.evaluate(&value));
    is_send(&ruleset.evaluate_value(&value));
    is_send(&ruleset.evaluate(&input));
    let _ = input.a;
    // "whenever the input is shareable": Sync is enough, the input is only borrowed
    let lock: &'static std::sync::Mutex<i32> = Box::leak(Box::new(std::sync::Mutex::new(5)));
    let locked = Locked(lock.lock().unwrap());
    is_send(&ruleset.evaluate(&locked));
    let shared: &'static [Option<&'static str>] = &[Some("a"), None];
    is_send(&ruleset.evaluate(&shared));
}
