//! C18, runtime half: one Arc<RuleSet> evaluated from N threads, the evaluation futures migrating
//! between threads at every suspension; every outcome and every per-evaluation invocation log must
//! equal the sequential baseline. Run natively (stress), under ThreadSanitizer and under Miri.
//!   c18mt <threads> <evaluations-per-thread> <seed> [jitter]

use reval::expr::{Expr, Index};
use reval::prelude::*;
use rvmon::exec::{noop_waker, CURRENT_EVAL};
use rvmon::fixture::build;
use rvmon::instr::{Entry, FaultPlan, FnDesc, Kind};
use rvmon::refeval::{classify, Obs};
use rvmon::rng::Rng;
use std::collections::{BTreeMap, VecDeque};
use std::future::Future;
use std::pin::Pin;
use std::sync::atomic::{AtomicU64, Ordering};
use std::sync::{Arc, Mutex};
use std::task::{Context, Poll};

type Rendered = Vec<(String, String)>;
type Task = Pin<Box<dyn Future<Output = Rendered> + Send + 'static>>;

fn render(outs: reval::Result<Vec<reval::ruleset::Outcome<'_>>>) -> Rendered {
    match outs {
        Ok(v) => v
            .into_iter()
            .map(|o| {
                let obs = match o.value {
                    Ok(v) => Obs::Val(v),
                    Err(e) => classify(&e),
                };
                (o.rule.name().to_string(), format!("{obs:?}"))
            })
            .collect(),
        Err(e) => vec![("<whole call>".into(), format!("Err({e})"))],
    }
}

fn rules() -> Vec<(String, Expr)> {
    let call = |f: &str, a: Expr| Expr::func(f, a);
    let mut m = BTreeMap::new();
    m.insert("z".to_string(), call("s1", Expr::reff("a")));
    m.insert("a".to_string(), call("n1", Expr::reff("b")));
    vec![
        ("arith".into(), Expr::add(Expr::reff("a"), Expr::value(1))),
        ("cached twice".into(), Expr::Vec(vec![call("s1", Expr::reff("a")), call("s1", Expr::reff("a")), call("s1", Expr::reff("b"))])),
        ("non-cacheable".into(), Expr::Vec(vec![call("n1", Expr::reff("a")), call("n1", Expr::reff("a"))])),
        ("symbol".into(), Expr::eq(Expr::symbol("limit"), Expr::reff("b"))),
        ("failing".into(), call("e1", Expr::reff("a"))),
        ("lazy".into(), Expr::iif(Expr::lt(Expr::reff("b"), Expr::value(1)), call("s2", Expr::reff("a")), Expr::index(Expr::reff("facts"), Index::from("missing")))),
        ("map order".into(), Expr::Map(m)),
        ("type error".into(), Expr::add(Expr::reff("a"), Expr::value("x".to_string()))),
    ]
}

fn input(i: u64) -> Value {
    let mut m = BTreeMap::new();
    m.insert("a".to_string(), Value::Int(i as i128));
    m.insert("b".to_string(), Value::Int((i % 3) as i128));
    Value::Map(m)
}

fn log_of(entries: &[Entry], eval: u64) -> Vec<String> {
    entries.iter().filter(|e| e.eval == eval).map(|e| format!("{}({:?})", e.func, e.arg)).collect()
}

/// A deliberate data race, used only to show that the sanitizer build is live (it must report it).
fn tsan_canary() {
    static mut COUNTER: u64 = 0;
    let hs: Vec<_> = (0..2)
        .map(|_| {
            std::thread::spawn(|| {
                for _ in 0..10_000 {
                    unsafe {
                        let p = std::ptr::addr_of_mut!(COUNTER);
                        p.write_volatile(p.read_volatile() + 1);
                    }
                }
            })
        })
        .collect();
    for h in hs {
        h.join().unwrap();
    }
    println!("canary done");
}

fn main() {
    let args: Vec<String> = std::env::args().collect();
    if args.get(1).map(|s| s == "tsan-canary").unwrap_or(false) {
        tsan_canary();
        return;
    }
    let threads: usize = args.get(1).and_then(|s| s.parse().ok()).unwrap_or(4);
    let per_thread: u64 = args.get(2).and_then(|s| s.parse().ok()).unwrap_or(20);
    let seed: u64 = args.get(3).and_then(|s| s.parse().ok()).unwrap_or(1);
    let jitter = args.get(4).map(|s| s == "jitter").unwrap_or(false);

    let descs = vec![
        FnDesc { name: "s1", cacheable: true, kind: Kind::Tag, suspend: 2 },
        FnDesc { name: "s2", cacheable: true, kind: Kind::V, suspend: 1 },
        FnDesc { name: "n1", cacheable: false, kind: Kind::Tag, suspend: 1 },
        FnDesc { name: "e1", cacheable: true, kind: Kind::E, suspend: 1 },
    ];
    let mut symbols = BTreeMap::new();
    symbols.insert("limit".to_string(), Value::Int(1));
    let fx = build(&descs, &symbols, &rules(), FaultPlan::default());
    let log = fx.log.clone();
    let ruleset: Arc<RuleSet> = Arc::new(fx.ruleset);
    let total = threads as u64 * per_thread;

    // sequential baseline: one evaluation after another on this thread
    let mut expected: Vec<(Rendered, Vec<String>)> = Vec::with_capacity(total as usize);
    for i in 0..total {
        log.take();
        CURRENT_EVAL.with(|c| c.set(i + 1));
        let facts = input(i);
        let r = render(rvmon::exec::block_on(ruleset.evaluate_value(&facts)));
        let l = log_of(&log.take(), i + 1);
        expected.push((r, l));
    }
    log.take();

    // concurrent: a shared run queue; every poll of a task may happen on a different thread
    let queue: Arc<Mutex<VecDeque<(u64, Task, Option<std::thread::ThreadId>)>>> = Arc::new(Mutex::new(VecDeque::new()));
    for i in 0..total {
        let rs = ruleset.clone();
        let t: Task = Box::pin(async move {
            let facts = input(i);
            render(rs.evaluate_value(&facts).await)
        });
        queue.lock().unwrap().push_back((i, t, None));
    }
    let results: Arc<Mutex<BTreeMap<u64, Rendered>>> = Arc::new(Mutex::new(BTreeMap::new()));
    let migrations = Arc::new(AtomicU64::new(0));
    let migrated_tasks: Arc<Mutex<std::collections::BTreeSet<u64>>> = Arc::new(Mutex::new(Default::default()));
    let polls = Arc::new(AtomicU64::new(0));
    let mut handles = vec![];
    for t in 0..threads {
        let queue = queue.clone();
        let results = results.clone();
        let migrations = migrations.clone();
        let migrated_tasks = migrated_tasks.clone();
        let polls = polls.clone();
        let mut rng = Rng::new(seed, "c18mt", t as u64);
        handles.push(std::thread::spawn(move || {
            let waker = noop_waker();
            let mut cx = Context::from_waker(&waker);
            let me = std::thread::current().id();
            loop {
                let item = {
                    let mut q = queue.lock().unwrap();
                    // take from a random end so that the order of tasks varies between threads
                    if rng.chance(1, 2) { q.pop_front() } else { q.pop_back() }
                };
                let Some((id, mut task, last)) = item else { break };
                if let Some(l) = last {
                    if l != me {
                        migrations.fetch_add(1, Ordering::Relaxed);
                        migrated_tasks.lock().unwrap().insert(id);
                    }
                }
                CURRENT_EVAL.with(|c| c.set(id + 1));
                polls.fetch_add(1, Ordering::Relaxed);
                match task.as_mut().poll(&mut cx) {
                    Poll::Ready(r) => {
                        results.lock().unwrap().insert(id, r);
                    }
                    Poll::Pending => {
                        if jitter {
                            if rng.chance(1, 4) {
                                std::thread::yield_now();
                            } else if rng.chance(1, 50) {
                                std::thread::sleep(std::time::Duration::from_micros(50));
                            }
                        }
                        queue.lock().unwrap().push_back((id, task, Some(me)));
                    }
                }
            }
        }));
    }
    for h in handles {
        h.join().expect("worker thread panicked");
    }
    let entries = log.take();
    let mut by_eval: std::collections::HashMap<u64, Vec<String>> = std::collections::HashMap::new();
    for e in &entries {
        by_eval.entry(e.eval).or_default().push(format!("{}({:?})", e.func, e.arg));
    }
    let results = results.lock().unwrap();
    let mut mismatches = vec![];
    for i in 0..total {
        let (want_r, want_l) = &expected[i as usize];
        match results.get(&i) {
            None => mismatches.push(format!("evaluation {i}: no result")),
            Some(r) => {
                if r != want_r {
                    mismatches.push(format!("evaluation {i}: outcomes differ from the sequential run: {r:?} vs {want_r:?}"));
                }
            }
        }
        let l = by_eval.remove(&(i + 1)).unwrap_or_default();
        if &l != want_l {
            mismatches.push(format!("evaluation {i}: invocation log differs from the sequential run: {l:?} vs {want_l:?}"));
        }
    }
    let out = serde_json::json!({
        "threads": threads, "evaluations": total, "polls": polls.load(Ordering::Relaxed), "migrations": migrations.load(Ordering::Relaxed), "tasks_migrated": migrated_tasks.lock().unwrap().len(),
        "mismatches": mismatches.len(), "first_mismatches": mismatches.iter().take(3).collect::<Vec<_>>(),
        "sample_outcome": expected.get(1).map(|e| format!("{:?}", e.0)),
    });
    println!("C18MT {out}");
    std::process::exit(if mismatches.is_empty() { 0 } else { 1 });
}
