//! C18, runtime half: one Arc<RuleSet> evaluated from N threads, the evaluation futures migrating
//! between threads at every suspension; every outcome and every per-evaluation invocation log must
//! equal the sequential baseline. Run natively (stress), under ThreadSanitizer and under Miri.
//!   c18mt <threads> <evaluations-per-thread> <seed> [jitter]

use reval::expr::{Expr, Index};
use reval::prelude::*;
use rvmon::exec::{noop_waker, CURRENT_EVAL};
use rvmon::fixture::build;
use rvmon::instr::{Entry, FaultPlan, FnDesc, Kind};
use rvmon::refeval::{classify, Obs};
use rvmon::rng::Rng;
use std::collections::{BTreeMap, VecDeque};
use std::future::Future;
use std::pin::Pin;
use std::sync::atomic::{AtomicU64, Ordering};
use std::sync::{Arc, Mutex};
use std::task::{Context, Poll};

type Rendered = Vec<(String, String)>;
type Task = Pin<Box<dyn Future<Output = Rendered> + Send + 'static>>;

fn render(outs: reval::Result<Vec<reval::ruleset::Outcome<'_>>>) -> Rendered {
    match outs {
        Ok(v) => v
            .into_iter()
            .map(|o| {
                let obs = match o.value {
                    Ok(v) => Obs::Val(v),
                    Err(e) => classify(&e),
                };
                (o.rule.name().to_string(), format!("{obs:?}"))
            })
            .collect(),
        Err(e) => vec![("<whole call>".into(), format!("Err({e})"))],
    }
}

fn rules() -> Vec<(String, Expr)> {
    let call = |f: &str, a: Expr| Expr::func(f, a);
    let mut m = BTreeMap::new();
    m.insert("z".to_string(), call("s1", Expr::reff("a")));
    m.insert("a".to_string(), call("n1", Expr::reff("b")));
    vec![
        ("arith".into(), Expr::add(Expr::reff("a"), Expr::value(1))),
        ("cached twice".into(), Expr::Vec(vec![call("s1", Expr::reff("a")), call("s1", Expr::reff("a")), call("s1", Expr::reff("b"))])),
        ("non-cacheable".into(), Expr::Vec(vec![call("n1", Expr::reff("a")), call("n1", Expr::reff("a"))])),
        ("symbol".into(), Expr::eq(Expr::symbol("limit"), Expr::reff("b"))),
        ("failing".into(), call("e1", Expr::reff("a"))),
        ("lazy".into(), Expr::iif(Expr::lt(Expr::reff("b"), Expr::value(1)), call("s2", Expr::reff("a")), Expr::index(Expr::reff("facts"), Index::from("missing")))),
        ("map order".into(), Expr::Map(m)),
        ("type error".into(), Expr::add(Expr::reff("a"), Expr::value("x".to_string()))),
        // rules made of literals only (anything computed once per ruleset and published to other threads would be these)
        ("constant table".into(), Expr::Vec((0..if cfg!(miri) || CHURN.load(Ordering::Relaxed) { 4 } else { 300 }).map(|i| Expr::Vec(vec![Expr::value(i as i128), Expr::value(format!("row {i}"))])).collect())),
        ("constant".into(), Expr::add(Expr::value(40), Expr::value(2))),
        // every built-in that parses or converts, on operands that differ from task to task (anything memoised process-wide —
        // the last parsed date, the last cast — would be shared by all threads)
        ("dates".into(), Expr::Vec(vec![
            Expr::year(Expr::datetime(Expr::reff("when"))), Expr::month(Expr::datetime(Expr::reff("when"))), Expr::day(Expr::datetime(Expr::reff("when"))), Expr::hour(Expr::datetime(Expr::reff("when"))),
            Expr::minute(Expr::datetime(Expr::reff("when"))), Expr::second(Expr::datetime(Expr::reff("when"))), Expr::week(Expr::reff("a")),
            Expr::sub(Expr::datetime(Expr::reff("when")), Expr::datetime(Expr::value("2000-01-01T00:00:00Z".to_string()))), Expr::datetime(Expr::reff("a")), Expr::duration(Expr::reff("a")),
        ])),
        ("casts and strings".into(), Expr::Vec(vec![
            Expr::int(Expr::reff("num")), Expr::float(Expr::reff("num")), Expr::dec(Expr::reff("num")), Expr::int(Expr::reff("x")), Expr::dec(Expr::reff("x")), Expr::float(Expr::reff("a")),
            Expr::uppercase(Expr::reff("word")), Expr::lowercase(Expr::reff("word")), Expr::trim(Expr::reff("word")), Expr::contains(Expr::reff("word"), Expr::value("7".to_string())),
            Expr::round(Expr::reff("x")), Expr::floor(Expr::reff("x")), Expr::fract(Expr::reff("x")), Expr::rem(Expr::reff("a"), Expr::value(7)), Expr::bitwise_xor(Expr::reff("a"), Expr::value(255)),
        ])),
    ]
}

fn input(i: u64) -> Value {
    let mut m = BTreeMap::new();
    m.insert("a".to_string(), Value::Int(i as i128));
    m.insert("b".to_string(), Value::Int((i % 3) as i128));
    m.insert("when".to_string(), Value::String(format!("{:04}-{:02}-{:02}T{:02}:{:02}:{:02}Z", 1900 + (i % 300), 1 + (i % 12), 1 + (i % 28), i % 24, i % 60, (i * 7) % 60)));
    m.insert("span".to_string(), Value::String(format!("P{}DT{}H", i % 400, i % 24)));
    m.insert("num".to_string(), Value::String(format!("{}", i * 37 + 5)));
    m.insert("word".to_string(), Value::String(format!("  Word {i} ß "))); 
    m.insert("x".to_string(), Value::Float(i as f64 / 8.0 + 0.5));
    Value::Map(m)
}

fn log_of(entries: &[Entry], eval: u64) -> Vec<String> {
    entries.iter().filter(|e| e.eval == eval).map(|e| format!("{}({:?})", e.func, e.arg)).collect()
}

/// A deliberate data race, used only to show that the sanitizer build is live (it must report it).
fn tsan_canary() {
    static mut COUNTER: u64 = 0;
    let hs: Vec<_> = (0..2)
        .map(|_| {
            std::thread::spawn(|| {
                for _ in 0..10_000 {
                    unsafe {
                        let p = std::ptr::addr_of_mut!(COUNTER);
                        p.write_volatile(p.read_volatile() + 1);
                    }
                }
            })
        })
        .collect();
    for h in hs {
        h.join().unwrap();
    }
    println!("canary done");
}

/// What one task evaluates. The baseline runs exactly the same code, one task after another on one thread.
#[derive(Clone, Copy, Debug, PartialEq)]
enum What {
    /// the shared ruleset A
    SharedA,
    /// a second shared ruleset with the same function / symbol / rule names but different behaviour
    SharedB,
    /// a bare expression through Expr::evaluate (no ruleset at all)
    BareExpr,
    /// a ruleset built inside the task, evaluated and dropped there (allocations of dropped rulesets are reused while others run)
    Ephemeral,
}

/// "churn" mode: every task builds its own ruleset (alternately with the behaviour of A and of B), so rulesets are created and
/// dropped on all threads at the same time while others are being evaluated
static CHURN: std::sync::atomic::AtomicBool = std::sync::atomic::AtomicBool::new(false);

fn what(i: u64) -> What {
    if CHURN.load(Ordering::Relaxed) {
        return What::Ephemeral;
    }
    match i % 8 {
        0 | 1 | 2 | 3 => What::SharedA,
        4 | 5 => What::SharedB,
        6 => What::BareExpr,
        _ => What::Ephemeral,
    }
}

fn descs_a() -> Vec<FnDesc> {
    vec![
        FnDesc { name: "s1", cacheable: true, kind: Kind::Tag, suspend: 2 },
        FnDesc { name: "s2", cacheable: true, kind: Kind::V, suspend: 1 },
        FnDesc { name: "n1", cacheable: false, kind: Kind::Tag, suspend: 1 },
        FnDesc { name: "e1", cacheable: true, kind: Kind::E, suspend: 1 },
    ]
}

fn descs_b() -> Vec<FnDesc> {
    vec![
        FnDesc { name: "s1", cacheable: false, kind: Kind::V, suspend: 1 },
        FnDesc { name: "s2", cacheable: true, kind: Kind::Tag, suspend: 2 },
        FnDesc { name: "n1", cacheable: true, kind: Kind::N, suspend: 0 },
        FnDesc { name: "e1", cacheable: false, kind: Kind::T, suspend: 1 },
    ]
}

fn bare_expr(i: u64) -> Expr {
    Expr::Vec(vec![Expr::mult(Expr::reff("a"), Expr::value((i % 7) as i128)), Expr::index(Expr::reff("facts"), Index::from("b")), Expr::iif(Expr::gt(Expr::reff("a"), Expr::value(10)), Expr::value("big".to_string()), Expr::value("small".to_string()))])
}

/// an ephemeral ruleset: its symbol value and one of its rules depend on the task number
fn ephemeral(i: u64) -> rvmon::fixture::Fixture {
    let mut symbols = BTreeMap::new();
    symbols.insert("limit".to_string(), Value::Int((i % 5) as i128));
    let mut rs = rules();
    rs.push(("own".into(), Expr::add(Expr::symbol("limit"), Expr::value(i as i128))));
    let b = if CHURN.load(Ordering::Relaxed) { i % 2 == 1 } else { i % 16 == 7 };
    let mut d = if b { descs_b() } else { descs_a() };
    if CHURN.load(Ordering::Relaxed) {
        // s1 does not suspend here: the end of one evaluation and the start of the next happen on the same thread with nothing in between
        d[0].suspend = 0;
    }
    build(&d, &symbols, &rs[(i % 4) as usize..], FaultPlan::default())
}

fn main() {
    let args: Vec<String> = std::env::args().collect();
    if args.get(1).map(|s| s == "tsan-canary").unwrap_or(false) {
        tsan_canary();
        return;
    }
    let threads: usize = args.get(1).and_then(|s| s.parse().ok()).unwrap_or(4);
    let per_thread: u64 = args.get(2).and_then(|s| s.parse().ok()).unwrap_or(20);
    let seed: u64 = args.get(3).and_then(|s| s.parse().ok()).unwrap_or(1);
    let jitter = args.get(4).map(|s| s == "jitter").unwrap_or(false);
    CHURN.store(args.get(5).map(|s| s == "churn").unwrap_or(false), Ordering::Relaxed);

    let mut symbols = BTreeMap::new();
    symbols.insert("limit".to_string(), Value::Int(1));
    let fa = build(&descs_a(), &symbols, &rules(), FaultPlan::default());
    symbols.insert("limit".to_string(), Value::Int(2));
    let mut rules_b = rules();
    rules_b.reverse();
    let fb = build(&descs_b(), &symbols, &rules_b, FaultPlan::default());
    let (log_a, log_b) = (fa.log.clone(), fb.log.clone());
    let ruleset_a: Arc<RuleSet> = Arc::new(fa.ruleset);
    let ruleset_b: Arc<RuleSet> = Arc::new(fb.ruleset);
    let total = threads as u64 * per_thread;

    // churn mode: the rulesets of the concurrent phase are built beforehand by all threads at the same moment (a barrier, then a
    // tight loop of builds on every thread), so whatever a build registers globally is registered concurrently; ruleset i is
    // built by thread i % threads. The baseline builds its own rulesets one after another on this thread.
    let (prebuilt, partner): (Arc<Vec<rvmon::fixture::Fixture>>, Arc<Vec<u64>>) = if CHURN.load(Ordering::Relaxed) {
        let barrier = Arc::new(std::sync::Barrier::new(threads));
        let hs: Vec<_> = (0..threads as u64)
            .map(|t| {
                let barrier = barrier.clone();
                std::thread::spawn(move || {
                    barrier.wait();
                    (0..per_thread).map(|k| (std::time::Instant::now(), k * threads as u64 + t, ephemeral(k * threads as u64 + t))).collect::<Vec<_>>()
                })
            })
            .collect();
        let mut all: Vec<(std::time::Instant, u64, rvmon::fixture::Fixture)> = hs.into_iter().flat_map(|h| h.join().expect("builder thread panicked")).collect();
        // every ruleset's partner is the one whose construction started next (most likely on another thread at nearly the same moment)
        all.sort_by_key(|(t, _, _)| *t);
        let mut partner = vec![0u64; all.len()];
        for w in 0..all.len() {
            partner[all[w].1 as usize] = all[(w + 1) % all.len()].1;
        }
        all.sort_by_key(|(_, i, _)| *i);
        (Arc::new(all.into_iter().map(|(_, _, f)| f).collect()), Arc::new(partner))
    } else {
        (Arc::new(vec![]), Arc::new(vec![]))
    };
    let make_task = |i: u64, concurrent: bool| -> Task {
        let (ra, rb) = (ruleset_a.clone(), ruleset_b.clone());
        let prebuilt = prebuilt.clone();
        let partner = partner.clone();
        Box::pin(async move {
            let facts = input(i);
            match what(i) {
                What::SharedA => render(ra.evaluate_value(&facts).await),
                What::SharedB => render(rb.evaluate_value(&facts).await),
                What::BareExpr => {
                    let e = bare_expr(i);
                    let r = e.evaluate(&facts).await;
                    vec![("bare".to_string(), format!("{:?}", match r { Ok(v) => Obs::Val(v), Err(e) => classify(&e) }))]
                }
                // churn mode: this task's ruleset and then, back to back, the one whose construction started next
                What::Ephemeral if concurrent && (i as usize) < prebuilt.len() => {
                    let mut r = render(prebuilt[i as usize].ruleset.evaluate_value(&facts).await);
                    let p = partner[i as usize];
                    r.extend(render(prebuilt[p as usize].ruleset.evaluate_value(&facts).await));
                    r
                }
                What::Ephemeral => {
                    let fx = ephemeral(i);
                    let mut r = render(fx.ruleset.evaluate_value(&facts).await);
                    drop(fx);
                    if CHURN.load(Ordering::Relaxed) {
                        let fx = ephemeral(partner[i as usize]);
                        r.extend(render(fx.ruleset.evaluate_value(&facts).await));
                    }
                    r
                }
            }
        })
    };

    // sequential baseline: one evaluation after another on this thread
    let mut expected: Vec<(Rendered, Vec<String>)> = Vec::with_capacity(total as usize);
    for i in 0..total {
        log_a.take();
        log_b.take();
        CURRENT_EVAL.with(|c| c.set(i + 1));
        let r = rvmon::exec::block_on(make_task(i, false));
        let mut l = log_of(&log_a.take(), i + 1);
        l.extend(log_of(&log_b.take(), i + 1));
        expected.push((r, l));
    }
    log_a.take();
    log_b.take();

    // concurrent: a shared run queue; every poll of a task may happen on a different thread. In churn mode every ruleset gets three
    // tasks next to each other in the queue, so that its first evaluations start on different threads at nearly the same moment
    let copies: u64 = if CHURN.load(Ordering::Relaxed) { 3 } else { 1 };
    let queue: Arc<Mutex<VecDeque<(u64, Task, Option<std::thread::ThreadId>)>>> = Arc::new(Mutex::new(VecDeque::new()));
    for id in 0..total * copies {
        queue.lock().unwrap().push_back((id, make_task(id / copies, true), None));
    }
    let results: Arc<Mutex<BTreeMap<u64, Rendered>>> = Arc::new(Mutex::new(BTreeMap::new()));
    let migrations = Arc::new(AtomicU64::new(0));
    let migrated_tasks: Arc<Mutex<std::collections::BTreeSet<u64>>> = Arc::new(Mutex::new(Default::default()));
    let polls = Arc::new(AtomicU64::new(0));
    let mut handles = vec![];
    for t in 0..threads {
        let queue = queue.clone();
        let results = results.clone();
        let migrations = migrations.clone();
        let migrated_tasks = migrated_tasks.clone();
        let polls = polls.clone();
        let mut rng = Rng::new(seed, "c18mt", t as u64);
        handles.push(std::thread::spawn(move || {
            let waker = noop_waker();
            let mut cx = Context::from_waker(&waker);
            let me = std::thread::current().id();
            loop {
                let item = {
                    let mut q = queue.lock().unwrap();
                    // take from a random end so that the order of tasks varies between threads
                    if rng.chance(1, 2) { q.pop_front() } else { q.pop_back() }
                };
                let Some((id, mut task, last)) = item else { break };
                if let Some(l) = last {
                    if l != me {
                        migrations.fetch_add(1, Ordering::Relaxed);
                        migrated_tasks.lock().unwrap().insert(id);
                    }
                }
                CURRENT_EVAL.with(|c| c.set(id + 1));
                polls.fetch_add(1, Ordering::Relaxed);
                match task.as_mut().poll(&mut cx) {
                    Poll::Ready(r) => {
                        results.lock().unwrap().insert(id, r);
                    }
                    Poll::Pending => {
                        if jitter {
                            if rng.chance(1, 4) {
                                std::thread::yield_now();
                            } else if rng.chance(1, 50) {
                                std::thread::sleep(std::time::Duration::from_micros(50));
                            }
                        }
                        queue.lock().unwrap().push_back((id, task, Some(me)));
                    }
                }
            }
        }));
    }
    for h in handles {
        h.join().expect("worker thread panicked");
    }
    let mut by_eval: std::collections::HashMap<u64, Vec<String>> = std::collections::HashMap::new();
    for e in log_a.take().iter().chain(log_b.take().iter()) {
        by_eval.entry(e.eval).or_default().push(format!("{}({:?})", e.func, e.arg));
    }
    let results = results.lock().unwrap();
    let mut mismatches = vec![];
    let mut kinds: BTreeMap<String, u64> = BTreeMap::new();
    for id in 0..total * copies {
        let i = id / copies;
        *kinds.entry(format!("{:?}", what(i))).or_default() += 1;
        let (want_r, want_l) = &expected[i as usize];
        match results.get(&id) {
            None => mismatches.push(format!("evaluation {i} ({:?}): no result", what(i))),
            Some(r) => {
                if r != want_r {
                    mismatches.push(format!("evaluation {i} ({:?}): outcomes differ from the sequential run: {r:?} vs {want_r:?}", what(i)));
                }
            }
        }
        let l = by_eval.remove(&(id + 1)).unwrap_or_default();
        if &l != want_l {
            mismatches.push(format!("evaluation {i} ({:?}): invocation log differs from the sequential run: {l:?} vs {want_l:?}", what(i)));
        }
    }
    let out = serde_json::json!({
        "threads": threads, "evaluations": total * copies, "polls": polls.load(Ordering::Relaxed), "migrations": migrations.load(Ordering::Relaxed), "tasks_migrated": migrated_tasks.lock().unwrap().len(),
        "mismatches": mismatches.len(), "first_mismatches": mismatches.iter().take(3).collect::<Vec<_>>(),
        "sample_outcome": expected.get(1).map(|e| format!("{:?}", e.0)), "evaluations_by_kind": kinds,
    });
    println!("C18MT {out}");
    std::process::exit(if mismatches.is_empty() { 0 } else { 1 });
}
