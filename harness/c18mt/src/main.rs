fn main() {}
