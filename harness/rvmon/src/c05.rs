//! C05 — conditionals and logic evaluate lazily; everything else exactly once, left to right;
//! the first error ends the evaluation. The observed history is the exact sequence of
//! user-function invocations (non-cacheable, unique argument ids).

use crate::core::{floor, Ctx, Finish, Merged, Property, Tier};
use crate::evalcommon::*;
use crate::fixture::{build, diff_class, diff_log, show_log, show_want, Fixture};
use crate::gen::{children, kind};
use crate::instr::{FaultPlan, FnDesc, Kind};
use crate::refeval::compare;
use crate::rng::fnv;
use reval::expr::{Expr, Index};
use reval::value::Value;
use serde_json::json;
use std::collections::BTreeMap;

pub const PROP: Property = Property { id: "C05", run, finish, shards: |_| 16, expect_s: |t| t.of(30, 300) };

pub fn descs() -> Vec<FnDesc> {
    vec![
        FnDesc { name: "t", cacheable: false, kind: Kind::T, suspend: 0 },
        FnDesc { name: "f", cacheable: false, kind: Kind::F, suspend: 0 },
        FnDesc { name: "n", cacheable: false, kind: Kind::N, suspend: 0 },
        FnDesc { name: "v", cacheable: false, kind: Kind::V, suspend: 0 },
        FnDesc { name: "e", cacheable: false, kind: Kind::E, suspend: 0 },
        FnDesc { name: "q", cacheable: false, kind: Kind::NaN, suspend: 0 },
        FnDesc { name: "z", cacheable: false, kind: Kind::Zero, suspend: 0 },
        FnDesc { name: "s", cacheable: false, kind: Kind::Empty, suspend: 0 },
        // cacheable wrappers for the repeated-sub-expression family
        FnDesc { name: "c", cacheable: true, kind: Kind::Tag, suspend: 0 },
        FnDesc { name: "cv", cacheable: true, kind: Kind::V, suspend: 0 },
    ]
}

const LEAVES: [&str; 5] = ["t", "f", "n", "v", "e"];
/// further left-operand values for the lazy operators: NaN, 0, "" (none of them may short-circuit anything)
const EXTRA_LEAVES: [&str; 3] = ["q", "z", "s"];

/// operator shapes: (name, arity)
const OPS: [(&str, usize); 50] = [
    ("if", 3), ("and", 2), ("or", 2), ("eq", 2), ("neq", 2), // lazy
    // every strict binary node kind (an operand-order slip in one of them must not hide behind a representative)
    ("add", 2), ("sub", 2), ("mult", 2), ("div", 2), ("rem", 2), ("gt", 2), ("gte", 2), ("lt", 2), ("lte", 2), ("bitand", 2), ("bitor", 2), ("bitxor", 2), ("contains", 2),
    ("list", 2), ("map", 2),
    ("neg", 1), ("int", 1), ("field", 1), ("call", 1), ("some", 1), ("index", 1), ("not", 1),
    // the remaining one-argument built-ins (an argument evaluated twice in one of them must not hide)
    ("none", 1), ("float", 1), ("dec", 1), ("datetime", 1), ("duration", 1), ("uppercase", 1), ("lowercase", 1), ("trim", 1), ("floor", 1), ("round", 1), ("fract", 1),
    ("year", 1), ("month", 1), ("week", 1), ("day", 1), ("hour", 1), ("minute", 1), ("second", 1),
    // longer constructors and a call whose argument is a call
    ("list3", 3), ("map3", 3), ("call-of-call", 1), ("index-of-list", 2), ("call-unknown", 1),
];

fn mk(op: &str, mut cs: Vec<Expr>) -> Expr {
    let mut next = || cs.remove(0);
    match op {
        "if" => {
            let (a, b, c) = (next(), next(), next());
            Expr::iif(a, b, c)
        }
        "and" => Expr::and(next(), next()),
        "or" => Expr::or(next(), next()),
        "eq" => Expr::eq(next(), next()),
        "neq" => Expr::neq(next(), next()),
        "add" => Expr::add(next(), next()),
        "sub" => Expr::sub(next(), next()),
        "mult" => Expr::mult(next(), next()),
        "div" => Expr::div(next(), next()),
        "rem" => Expr::rem(next(), next()),
        "gt" => Expr::gt(next(), next()),
        "gte" => Expr::gte(next(), next()),
        "lt" => Expr::lt(next(), next()),
        "lte" => Expr::lte(next(), next()),
        "bitand" => Expr::bitwise_and(next(), next()),
        "bitor" => Expr::bitwise_or(next(), next()),
        "bitxor" => Expr::bitwise_xor(next(), next()),
        "not" => Expr::not(next()),
        "none" => Expr::none(next()),
        "float" => Expr::float(next()),
        "dec" => Expr::dec(next()),
        "datetime" => Expr::datetime(next()),
        "duration" => Expr::duration(next()),
        "uppercase" => Expr::uppercase(next()),
        "lowercase" => Expr::lowercase(next()),
        "trim" => Expr::trim(next()),
        "floor" => Expr::floor(next()),
        "round" => Expr::round(next()),
        "fract" => Expr::fract(next()),
        "year" => Expr::year(next()),
        "month" => Expr::month(next()),
        "week" => Expr::week(next()),
        "day" => Expr::day(next()),
        "hour" => Expr::hour(next()),
        "minute" => Expr::minute(next()),
        "second" => Expr::second(next()),
        "list3" => Expr::Vec(vec![next(), next(), next()]),
        "map3" => {
            // inserted as m, z, a: evaluation must follow key order a, m, z
            let mut m = BTreeMap::new();
            m.insert("m".to_string(), next());
            m.insert("z".to_string(), next());
            m.insert("a".to_string(), next());
            Expr::Map(m)
        }
        "call-of-call" => Expr::func("v", Expr::func("t", next())),
        "call-unknown" => Expr::func("nosuch", next()),
        "index-of-list" => Expr::index(Expr::Vec(vec![next(), next()]), Index::from(1usize)),
        "contains" => Expr::contains(next(), next()),
        "list" => Expr::Vec(vec![next(), next()]),
        "map" => {
            // keys inserted in non-key order: "z" first, "a" second; evaluation must follow key order
            let mut m = BTreeMap::new();
            m.insert("z".to_string(), next());
            m.insert("a".to_string(), next());
            Expr::Map(m)
        }
        "neg" => Expr::neg(next()),
        "int" => Expr::int(next()),
        "field" => Expr::index(next(), Index::from("k")),
        "index" => Expr::index(next(), Index::from(0usize)),
        "call" => Expr::func("v", next()),
        "some" => Expr::some(next()),
        _ => unreachable!(),
    }
}

struct Ids(i128);
impl Ids {
    fn leaf(&mut self, k: &str) -> Expr {
        self.0 += 1;
        Expr::func(k, Expr::value(self.0))
    }
}

/// the "map" shape evaluates child 1 ("a") before child 0 ("z"): children() of Expr::Map iterates
/// in key order already, so nothing special is needed for the model; this is only for enumeration.
fn depth1_trees() -> Vec<(usize, Vec<usize>)> {
    // (op index, leaf kinds)
    let mut out = vec![];
    for (oi, (_, ar)) in OPS.iter().enumerate() {
        let n = 5usize.pow(*ar as u32);
        for code in 0..n {
            let mut c = code;
            let mut ks = vec![];
            for _ in 0..*ar {
                ks.push(c % 5);
                c /= 5;
            }
            out.push((oi, ks));
        }
    }
    out
}

fn build_d1(ids: &mut Ids, t: &(usize, Vec<usize>)) -> Expr {
    let cs = t.1.iter().map(|k| ids.leaf(LEAVES[*k])).collect();
    mk(OPS[t.0].0, cs)
}

fn lazy_situation(e: &Expr, host_facts: &Value, fx: &Fixture) -> Option<String> {
    // classify what the left/condition operand of a lazy root did, for the coverage floor
    let (op, first) = match e {
        Expr::If(c, _, _) => ("if", c),
        Expr::And(l, _) => ("and", l),
        Expr::Or(l, _) => ("or", l),
        Expr::Equals(l, _) => ("eq", l),
        Expr::NotEquals(l, _) => ("neq", l),
        _ => return None,
    };
    let p = Fixture { ruleset: reval::prelude::ruleset().build(), log: fx.log.clone(), descs: fx.descs.clone(), symbols: fx.symbols.clone(), plan: fx.plan.clone(), rules: vec![("x".into(), (**first).clone())] }.predict(host_facts);
    let s = match &p.outcomes[0].1 {
        Ok(Value::Bool(b)) => match (op, b) {
            ("and", false) | ("or", true) => "left-decides",
            ("and", true) | ("or", false) => "left-does-not-decide",
            ("if", true) => "condition-true",
            ("if", false) => "condition-false",
            _ => "left-value",
        },
        Ok(Value::None) => "left-none",
        Ok(_) => "left-non-bool",
        Err(_) => "left-errors",
    };
    Some(format!("{op}:{s}"))
}

fn judge(ctx: &mut Ctx, e: &Expr, family: &str) {
    let facts = Value::None;
    ctx.begin(|| format!("{}\t{}", kind(e), show_expr(e)));
    ctx.count();
    ctx.hit(&format!("family:{family}"));
    let fx = build(&descs(), &BTreeMap::new(), &[("r".to_string(), e.clone())], FaultPlan::default());
    let pred = fx.predict(&facts);
    if let Some(s) = lazy_situation(e, &facts, &fx) {
        ctx.hit(&format!("lazy:{s}"));
    }
    let res = match fx.eval(&facts, 1) {
        Ok(r) => r,
        Err(p) => {
            ctx.violation(format!("C05 evaluation-failed {}", kind(e)), p, json!({"expr": show_expr(e)}));
            return;
        }
    };
    if pred.invocations.len() >= 2 {
        let h: String = pred.invocations.iter().map(|(n, a, _)| format!("{n}{a:?};")).collect();
        ctx.nontrivial(fnv(format!("{}|{h}", kind(e)).as_bytes()));
    }
    ctx.hit(&format!("history-length:{}", pred.invocations.len().min(9)));
    let skipped = count_calls(e) - pred.invocations.len();
    if skipped > 0 {
        ctx.hit("histories-with-unreached-calls");
    }
    let mut hist = diff_log(&res.log, &pred.invocations);
    let mut outcome = compare(&pred.outcomes[0].1, &res.outcomes[0].1);
    let mut res = res;
    // the same with every function suspending once before it answers: the history must not change
    if hist.is_none() && outcome.is_none() && count_calls(e) >= 2 {
        crate::instr::EXTRA_SUSPEND.store(1, std::sync::atomic::Ordering::Relaxed);
        let again = fx.eval(&facts, 2);
        crate::instr::EXTRA_SUSPEND.store(0, std::sync::atomic::Ordering::Relaxed);
        match again {
            Ok(r) => {
                ctx.hit("histories-replayed-with-suspending-functions");
                hist = diff_log(&r.log, &pred.invocations).map(|d| format!("{d} (when every function suspends once)"));
                outcome = compare(&pred.outcomes[0].1, &r.outcomes[0].1);
                if hist.is_some() || outcome.is_some() {
                    res = r;
                }
            }
            Err(p) => {
                ctx.violation(format!("C05 evaluation-failed {}", kind(e)), p, json!({"expr": show_expr(e), "suspending": true}));
                return;
            }
        }
    }
    if hist.is_none() && outcome.is_none() {
        ctx.sample(&format!("agree:{family}:{}", kind(e)), || json!({"expr": show_expr(e), "invocations": show_log(&res.log), "outcome": show_obs(&res.outcomes[0].1)}));
        return;
    }
    // localise: the smallest sub-expression whose own history already differs
    let (sub, sub_kind) = smallest_failing(e, &facts);
    let class = match (&hist, &outcome) {
        (Some(_), _) => diff_class(&res.log, &pred.invocations).to_string(),
        (None, Some(m)) => format!("outcome-{m}"),
        _ => unreachable!(),
    };
    ctx.violation(
        format!("C05 {class} at {sub_kind}"),
        format!("invocation history / outcome differs from lazy left-to-right evaluation: {}", hist.clone().or(outcome.clone()).unwrap()),
        json!({
            "expr": show_expr(e), "smallest_failing_subtree": sub,
            "observed_invocations": show_log(&res.log), "expected_invocations": show_want(&pred.invocations),
            "observed_outcome": show_obs(&res.outcomes[0].1), "expected_outcome": show_exp(&pred.outcomes[0].1),
        }),
    );
}

fn count_calls(e: &Expr) -> usize {
    let mut n = 0;
    crate::gen::walk(e, &mut |x| {
        if matches!(x, Expr::Function(..)) {
            n += 1
        }
    });
    n
}

fn fails(e: &Expr, facts: &Value) -> bool {
    let fx = build(&descs(), &BTreeMap::new(), &[("r".to_string(), e.clone())], FaultPlan::default());
    let pred = fx.predict(facts);
    match fx.eval(facts, 1) {
        Ok(res) => diff_log(&res.log, &pred.invocations).is_some() || compare(&pred.outcomes[0].1, &res.outcomes[0].1).is_some(),
        Err(_) => true,
    }
}

fn smallest_failing(e: &Expr, facts: &Value) -> (String, String) {
    for c in children(e) {
        if fails(c, facts) {
            return smallest_failing(c, facts);
        }
    }
    (show_expr(e), kind(e).to_string())
}

fn run(ctx: &mut Ctx) {
    let d1 = depth1_trees();
    let mut ids = Ids(0);
    // depth 1: every operator shape x every leaf-kind assignment
    for t in &d1 {
        if !ctx.mine() {
            continue;
        }
        let e = build_d1(&mut ids, t);
        judge(ctx, &e, "depth1");
    }
    // depth 2, one composite child: every operator x every child position x every depth-1 tree x
    // every leaf-kind assignment of the remaining positions
    for (op, ar) in OPS.iter() {
        for pos in 0..*ar {
            for t in &d1 {
                let rest = 5usize.pow((*ar - 1) as u32);
                for code in 0..rest {
                    if !ctx.mine() {
                        continue;
                    }
                    let mut c = code;
                    let mut cs = vec![];
                    for p in 0..*ar {
                        if p == pos {
                            cs.push(build_d1(&mut ids, t));
                        } else {
                            cs.push(ids.leaf(LEAVES[c % 5]));
                            c /= 5;
                        }
                    }
                    let e = mk(op, cs);
                    judge(ctx, &e, "depth2-one-composite-child");
                }
            }
        }
    }
    // the lazy operators with further kinds of left value (NaN, 0, ""), every kind of right operand
    for op in ["if", "and", "or", "eq", "neq"] {
        for l in EXTRA_LEAVES {
            for r in LEAVES {
                for r2 in LEAVES {
                    if !ctx.mine() {
                        continue;
                    }
                    let cs = if op == "if" { vec![ids.leaf(l), ids.leaf(r), ids.leaf(r2)] } else { vec![ids.leaf(l), ids.leaf(r)] };
                    judge(ctx, &mk(op, cs), "lazy-operators-with-unusual-left-values");
                    // and the same left value computed by an arithmetic sub-expression instead of a call
                    if l == "q" && op != "if" {
                        let nan = Expr::div(Expr::value(0.0), Expr::value(0.0));
                        judge(ctx, &mk(op, vec![nan, ids.leaf(r)]), "lazy-operators-with-unusual-left-values");
                    }
                }
            }
        }
    }
    // strict binary operators with a degenerate constant on one side (empty list / map / string, zero, NaN, none, …): the
    // other operand is still evaluated exactly once — no value of one operand decides a strict operator early
    {
        let constants = || -> Vec<Expr> {
            vec![
                Expr::Vec(vec![]), Expr::Map(BTreeMap::new()), Expr::value(String::new()), Expr::value(0), Expr::value(0.0), Expr::value(f64::NAN), Expr::value(f64::INFINITY), Expr::Value(Value::None),
                Expr::value(false), Expr::value(true), Expr::value(1), Expr::Vec(vec![Expr::Value(Value::None)]), Expr::value(rust_decimal::Decimal::ZERO), Expr::value("s".to_string()), Expr::value(i128::MAX), Expr::value(i128::MIN),
                Expr::index(Expr::Vec(vec![Expr::Vec(vec![])]), Index::from(0usize)),
            ]
        };
        for (op, ar) in OPS {
            if ar != 2 || ["and", "or", "eq", "neq"].contains(&op) {
                continue;
            }
            for c in constants() {
                for l in LEAVES {
                    if !ctx.mine() {
                        continue;
                    }
                    judge(ctx, &mk(op, vec![c.clone(), ids.leaf(l)]), "strict-operators-with-a-degenerate-constant-operand");
                    judge(ctx, &mk(op, vec![ids.leaf(l), c.clone()]), "strict-operators-with-a-degenerate-constant-operand");
                }
            }
        }
    }
    // chains of 4 and 5 and/or operands (left-nested as the parser builds them and right-nested), every leaf-kind assignment:
    // once an operand decides, nothing to its right is evaluated or type-checked
    for len in [4usize, 5] {
        let n = 5usize.pow(len as u32);
        for code in 0..n {
            if !ctx.mine() {
                continue;
            }
            if len == 5 && code % 7 != 0 {
                continue;
            }
            let mut c = code;
            let leaves: Vec<Expr> = (0..len)
                .map(|_| {
                    let l = ids.leaf(LEAVES[c % 5]);
                    c /= 5;
                    l
                })
                .collect();
            for (which, op) in [Expr::and as fn(Expr, Expr) -> Expr, Expr::or].into_iter().enumerate() {
                let left = leaves.iter().cloned().reduce(|a, b| op(a, b)).unwrap();
                let right = leaves.iter().cloned().rev().reduce(|a, b| op(b, a)).unwrap();
                let mixed = leaves.iter().cloned().enumerate().reduce(|(i, a), (j, b)| (j, if (i + which) % 2 == 0 { Expr::and(a, b) } else { Expr::or(a, b) })).unwrap().1;
                judge(ctx, &left, "logic-chains");
                judge(ctx, &right, "logic-chains");
                judge(ctx, &mixed, "logic-chains");
            }
        }
    }
    // wide strict constructs: lists, call arguments and maps with 9..40 call items (order must not depend on the number of items), map keys
    // whose byte order, case-insensitive order and Unicode collation differ, equality with none on the left and a call under a built-in on the right
    if ctx.mine() {
        for n in [9usize, 16, 17, 33, 40] {
            let items: Vec<Expr> = (0..n).map(|i| ids.leaf(if i == n - 2 { "e" } else { "v" })).collect();
            judge(ctx, &Expr::Vec(items.clone()), "wide-strict-constructs");
            judge(ctx, &Expr::func("v", Expr::Vec(items.clone())), "wide-strict-constructs");
            judge(ctx, &Expr::contains(Expr::Vec(items.clone()), ids.leaf("v")), "wide-strict-constructs");
            let keys = ["a", "B", "b", "Z", "z", "é", "e", "ä", "~", "_", "0", "10", "9", "\u{10000}", "\u{ffff}", "aa", "a_", "A", "Ω", "ω"];
            let m: BTreeMap<String, Expr> = (0..n.min(keys.len())).map(|i| (keys[i].to_string(), ids.leaf("v"))).collect();
            judge(ctx, &Expr::Map(m), "wide-strict-constructs");
        }
        for wrap in [Expr::int as fn(Expr) -> Expr, Expr::some, Expr::neg, Expr::uppercase] {
            judge(ctx, &Expr::eq(ids.leaf("n"), wrap(ids.leaf("v"))), "wide-strict-constructs");
            judge(ctx, &Expr::neq(ids.leaf("n"), wrap(ids.leaf("e"))), "wide-strict-constructs");
            judge(ctx, &Expr::eq(Expr::index(Expr::Vec(vec![]), Index::from(3usize)), wrap(ids.leaf("v"))), "wide-strict-constructs");
            judge(ctx, &Expr::eq(wrap(ids.leaf("n")), wrap(ids.leaf("v"))), "wide-strict-constructs");
        }
        // if with constant branches, constant condition of the wrong type, else-if chains of 12
        for cond in ["t", "f", "n", "v", "e"] {
            judge(ctx, &Expr::iif(ids.leaf(cond), Expr::value(1), Expr::value(2)), "wide-strict-constructs");
        }
        for bad in [Expr::value(1), Expr::value("x".to_string()), Expr::Value(Value::None), Expr::Vec(vec![])] {
            judge(ctx, &Expr::iif(bad.clone(), ids.leaf("v"), ids.leaf("v")), "wide-strict-constructs");
            judge(ctx, &Expr::and(bad.clone(), ids.leaf("v")), "wide-strict-constructs");
            judge(ctx, &Expr::or(ids.leaf("f"), Expr::or(bad, ids.leaf("v"))), "wide-strict-constructs");
        }
        let mut chain = ids.leaf("v");
        for k in 0..12 {
            chain = Expr::iif(ids.leaf(if k == 7 { "t" } else { "f" }), ids.leaf("v"), chain);
        }
        judge(ctx, &chain, "wide-strict-constructs");
    }
    // a failing NON-call operand to the left of a call in every strict construct: the first error ends the evaluation, the call is never made
    {
        let bombs = || vec![Expr::reff("no_such_field"), Expr::symbol("no_such_symbol"), Expr::div(Expr::value(1), Expr::value(0)), Expr::int(Expr::value("x".to_string())), Expr::func("no_such_function", Expr::value(1)), Expr::add(Expr::value(1), Expr::value("s".to_string())), Expr::index(Expr::value(5), Index::from(0usize))];
        for (op, ar) in OPS {
            if ar < 2 || ["if", "and", "or"].contains(&op) {
                continue;
            }
            for bomb in bombs() {
                for l in ["v", "e", "n"] {
                    if !ctx.mine() {
                        continue;
                    }
                    let mut cs = vec![bomb.clone()];
                    for _ in 1..ar {
                        cs.push(ids.leaf(l));
                    }
                    judge(ctx, &mk(op, cs), "failing-non-call-operand-before-a-call");
                    // and in the middle: call, bomb, call
                    if ar == 3 {
                        judge(ctx, &mk(op, vec![ids.leaf(l), bomb.clone(), ids.leaf(l)]), "failing-non-call-operand-before-a-call");
                    }
                }
            }
        }
        for bomb in bombs() {
            if !ctx.mine() {
                continue;
            }
            judge(ctx, &Expr::func("v", Expr::Vec(vec![bomb.clone(), ids.leaf("v")])), "failing-non-call-operand-before-a-call");
            judge(ctx, &Expr::index(Expr::Vec(vec![bomb.clone(), ids.leaf("v")]), Index::from(1usize)), "failing-non-call-operand-before-a-call");
            judge(ctx, &Expr::iif(Expr::eq(bomb.clone(), ids.leaf("v")), ids.leaf("v"), ids.leaf("v")), "failing-non-call-operand-before-a-call");
        }
    }
    // unreached positions holding constant sub-expressions that fail if evaluated (nothing to log — the
    // outcome shows it): literal division by zero, a bad cast, a type error, an unknown reference
    {
        let bombs = || vec![
            Expr::div(Expr::value(1), Expr::value(0)), Expr::int(Expr::value("x".to_string())), Expr::add(Expr::value(1), Expr::value("s".to_string())),
            Expr::reff("no_such_field"), Expr::symbol("no_such_symbol"), Expr::func("no_such_function", Expr::value(1)), Expr::neg(Expr::value(i128::MIN)),
            Expr::Vec(vec![Expr::value(1), Expr::div(Expr::value(1), Expr::value(0))]), Expr::index(Expr::value(5), Index::from(0usize)),
        ];
        for bomb in bombs() {
            for decider in ["t", "f", "n"] {
                if !ctx.mine() {
                    continue;
                }
                for e in [
                    Expr::and(ids.leaf(decider), bomb.clone()), Expr::or(ids.leaf(decider), bomb.clone()), Expr::eq(ids.leaf(decider), bomb.clone()), Expr::neq(ids.leaf(decider), bomb.clone()),
                    Expr::iif(ids.leaf(decider), bomb.clone(), Expr::value(1)), Expr::iif(ids.leaf(decider), Expr::value(1), bomb.clone()),
                    Expr::and(Expr::value(false), bomb.clone()), Expr::or(Expr::value(true), bomb.clone()), Expr::eq(Expr::none_value(), bomb.clone()),
                    Expr::iif(Expr::value(true), Expr::value(1), bomb.clone()), Expr::iif(Expr::value(false), bomb.clone(), Expr::value(2)),
                    Expr::Vec(vec![Expr::or(Expr::value(true), bomb.clone()), ids.leaf("v")]),
                ] {
                    judge(ctx, &e, "constant-failing-subexpression-in-lazy-position");
                }
            }
        }
    }
    // depth 2 with all children composite, and deeper random trees
    let mut rng = ctx.rng.clone();
    // repeated, textually identical sub-expressions around cacheable functions: a cache hit must not
    // change which operands get evaluated (only the cached function itself is skipped)
    {
        let n = ctx.tier.of(20_000, 200_000);
        for _ in 0..n {
            let mut small = Ids(0);
            let mut atom = |rng: &mut crate::rng::Rng| -> Expr {
                small.0 = rng.below(2) as i128; // ids from {1, 2}: repeats are the point
                let inner = small.leaf(LEAVES[rng.below(4)]);
                match rng.below(4) {
                    0 => Expr::func("c", inner),
                    1 => Expr::func("cv", inner),
                    2 => Expr::func("c", Expr::func("cv", inner)),
                    _ => inner,
                }
            };
            let (op, ar) = OPS[rng.below(OPS.len())];
            let cs: Vec<Expr> = (0..ar).map(|_| atom(&mut rng)).collect();
            let e = mk(op, cs);
            let e = if rng.chance(1, 2) { Expr::Vec(vec![e.clone(), atom(&mut rng), e]) } else { e };
            judge(ctx, &e, "repeated-subexpressions-with-cacheable-calls");
        }
    }
    let n = ctx.tier.of(60_000, 600_000);
    for _ in 0..n {
        let (op, ar) = OPS[rng.below(OPS.len())];
        let cs = (0..ar).map(|_| build_d1(&mut ids, &d1[rng.below(d1.len())])).collect();
        let e = mk(op, cs);
        judge(ctx, &e, "depth2-all-composite");
    }
    let n = ctx.tier.of(60_000, 600_000);
    for _ in 0..n {
        let depth = 3 + rng.below(2);
        let e = random_tree(&mut rng, &mut ids, &d1, depth);
        judge(ctx, &e, "random-depth3-4");
    }
    ctx.rng = rng;
}

fn random_tree(rng: &mut crate::rng::Rng, ids: &mut Ids, d1: &[(usize, Vec<usize>)], depth: usize) -> Expr {
    if depth <= 1 || rng.chance(1, 5) {
        return if rng.chance(1, 3) { ids.leaf(LEAVES[rng.below(5)]) } else { build_d1(ids, &d1[rng.below(d1.len())]) };
    }
    let (op, ar) = OPS[rng.below(OPS.len())];
    let cs = (0..ar).map(|_| random_tree(rng, ids, d1, depth - 1)).collect();
    mk(op, cs)
}

fn finish(m: &Merged, tier: Tier) -> Finish {
    let mut f = Finish {
        rule: "every tree is one rule of a ruleset whose five functions t/f/n/v/e (true, false, None, identity, fails) are non-cacheable and log every invocation; every call site carries a unique integer id. The observed log must equal, call by call, the sequence predicted by lazy left-to-right evaluation (reference evaluator), and the reported outcome/error must be the predicted one. Trees: every operator shape x every leaf kind (depth 1), one composite child in every position (depth 2), random depth 3-4, lazy operators with NaN / 0 / empty string on the left, every strict binary operator with a degenerate constant ([] {} empty-string 0 NaN none ...) on either side, constant failing sub-expressions in unreached positions, repeated cacheable sub-expressions. Non-trivial = predicted history of length >= 2; distinct by (root kind, predicted history)".into(),
        exhaustive: false,
        exhaustive_part: "depth 1 (49 operator shapes — every binary node kind, every one-argument built-in, 2- and 3-entry lists and maps — x all 5^arity leaf assignments) and depth 2 with one composite child in every position are enumerated completely; depth 2 with all children composite and depth 3-4 are seeded random".into(),
        ..Default::default()
    };
    let need = [
        "if:condition-true", "if:condition-false", "if:left-none", "if:left-non-bool", "if:left-errors",
        "and:left-decides", "and:left-does-not-decide", "and:left-none", "and:left-non-bool", "and:left-errors",
        "or:left-decides", "or:left-does-not-decide", "or:left-none", "or:left-non-bool", "or:left-errors",
        "eq:left-none", "eq:left-value", "eq:left-non-bool", "eq:left-errors", "neq:left-none", "neq:left-errors",
    ];
    let seen = need.iter().filter(|k| m.c(&format!("lazy:{k}")) > 0).count();
    f.floors.push(floor(format!("lazy-operator situations seen ({seen}/{})", need.len()), seen == need.len()));
    f.floors.push(floor(format!("distinct predicted histories of length >= 2: {}", m.distinct_nontrivial), m.distinct_nontrivial >= tier.of(1_000, 10_000)));
    f.floors.push(floor(format!("trees in which some call site must stay unreached: {}", m.c("histories-with-unreached-calls")), m.c("histories-with-unreached-calls") >= 1_000));
    f.extras.insert("histories_distinct".into(), json!(m.distinct_nontrivial));
    f.extras.insert("lazy_situations".into(), json!(m.prefix_map("lazy:")));
    f.extras.insert("history_lengths".into(), json!(m.prefix_map("history-length:")));
    f.extras.insert("families".into(), json!(m.prefix_map("family:")));
    f.assumptions = vec!["the instrumented functions record an invocation when entered; the order model is the statement of C05 as implemented by the reference evaluator (if: condition then one branch; and/or: right only if left does not decide; ==/!=: right not evaluated when left is None; everything else left to right, map entries in key order, first error ends evaluation)".into()];
    f
}
