//! C03 — operators never coerce operands between types: every unsupported combination of
//! non-None operand types is a type error, cross-type equality is false, only casts change types.

use crate::core::{floor, Ctx, Finish, Merged, Property, Tier};
use crate::evalcommon::*;
use crate::gen::{BINARY, UNARY};
use crate::pools::ty;
use crate::refeval::Obs;
use crate::rng::fnv;
use chrono::{TimeDelta, TimeZone, Utc};
use reval::expr::Expr;
use reval::value::Value;
use rust_decimal::Decimal;
use serde_json::json;
use std::collections::BTreeMap;

pub const PROP: Property = Property { id: "C03", run, finish, shards: |_| 8, expect_s: |t| t.of(10, 60) };

const NON_NONE: [&str; 9] = ["String", "Int", "Float", "Decimal", "Bool", "DateTime", "Duration", "Vec", "Map"];

/// The supported (operator, operand types) cells — the table as data. Everything else over
/// non-None operands must be InvalidType.
pub fn unary_supported(op: &str, t: &str) -> bool {
    match op {
        "some" | "none" => true,
        "not" => t == "Bool",
        "neg" => matches!(t, "Int" | "Float" | "Decimal"),
        "int" | "float" | "dec" => matches!(t, "Int" | "Float" | "Decimal" | "String"),
        "datetime" => matches!(t, "String" | "Int" | "DateTime"),
        "duration" => matches!(t, "Int" | "Duration"),
        "uppercase" | "lowercase" | "trim" => t == "String",
        "round" | "floor" | "fract" => matches!(t, "Float" | "Decimal"),
        "year" | "month" => t == "DateTime",
        "week" => matches!(t, "Int" | "Duration"),
        "day" | "hour" | "minute" | "second" => matches!(t, "Int" | "DateTime" | "Duration"),
        _ => panic!("unknown unary {op}"),
    }
}

pub fn binary_supported(op: &str, a: &str, b: &str) -> bool {
    let num = |t: &str| matches!(t, "Int" | "Float" | "Decimal");
    match op {
        "add" => (a == b && num(a)) || (a == "DateTime" && b == "Duration"),
        "sub" => (a == b && num(a)) || (a == "DateTime" && (b == "DateTime" || b == "Duration")) || (a == "Duration" && b == "Duration"),
        "mult" | "div" | "rem" => a == b && num(a),
        "gt" | "gte" | "lt" | "lte" => a == b && matches!(a, "Int" | "Float" | "Decimal" | "DateTime" | "Duration"),
        "bitand" | "bitor" | "bitxor" => a == b && matches!(a, "Int" | "Bool"),
        "contains" => a == "Vec" || (a == "Map" && b == "String") || (a == "String" && b == "String") || (a == "Int" && b == "Int"),
        "eq" | "neq" => true,
        "and" | "or" => a == "Bool" && b == "Bool",
        _ => panic!("unknown binary {op}"),
    }
}

/// Values chosen to coincide under coercion: column k of every type "means the same" as far as
/// a coercing implementation could tell (1 / 1.0 / "1" / true / 1 s / epoch+1 / [1] / {a:1} …).
pub fn tuples() -> BTreeMap<&'static str, Vec<Value>> {
    let dt = |s: i64| Value::DateTime(Utc.timestamp_opt(s, 0).unwrap());
    let du = |s: i64| Value::Duration(TimeDelta::seconds(s));
    let s = |x: &str| Value::String(x.to_string());
    let map = |v: Value| {
        let mut m = BTreeMap::new();
        m.insert("a".to_string(), v);
        Value::Map(m)
    };
    let mut t = BTreeMap::new();
    t.insert("Int", vec![Value::Int(1), Value::Int(0), Value::Int(2), Value::Int(-1), Value::Int(5), Value::Int(1_438_226_773)]);
    t.insert("Float", vec![Value::Float(1.0), Value::Float(0.0), Value::Float(2.0), Value::Float(-1.0), Value::Float(5.0), Value::Float(1_438_226_773.0)]);
    t.insert("Decimal", vec![Value::Decimal(Decimal::new(1, 0)), Value::Decimal(Decimal::new(0, 0)), Value::Decimal(Decimal::new(2, 0)), Value::Decimal(Decimal::new(-1, 0)), Value::Decimal(Decimal::new(50, 1)), Value::Decimal(Decimal::new(1_438_226_773, 0))]);
    t.insert("String", vec![s("1"), s(""), s("2"), s("-1"), s("true"), s("2015-07-30T03:26:13Z")]);
    t.insert("Bool", vec![Value::Bool(true), Value::Bool(false), Value::Bool(true), Value::Bool(false), Value::Bool(true), Value::Bool(false)]);
    t.insert("DateTime", vec![dt(1), dt(0), dt(2), dt(-1), dt(5), dt(1_438_226_773)]);
    t.insert("Duration", vec![du(1), du(0), du(2), du(-1), du(5), du(1_438_226_773)]);
    t.insert("Vec", vec![Value::Vec(vec![Value::Int(1)]), Value::Vec(vec![]), Value::Vec(vec![Value::Int(2)]), Value::Vec(vec![Value::Float(-1.0)]), Value::Vec(vec![Value::Bool(true)]), Value::Vec(vec![s("1")])]);
    t.insert("Map", vec![map(Value::Int(1)), Value::Map(BTreeMap::new()), map(Value::Int(2)), map(Value::Float(-1.0)), map(Value::Bool(true)), map(s("1"))]);
    t
}

/// an expression that *computes* a value of the given type (first tuple column) through an operator
fn computed(t: &str) -> Expr {
    match t {
        "Bool" => Expr::lt(Expr::value(1), Expr::value(2)),
        "Int" => Expr::add(Expr::value(0), Expr::value(1)),
        "Float" => Expr::mult(Expr::value(1.0), Expr::value(1.0)),
        "Decimal" => Expr::sub(Expr::value(Decimal::new(2, 0)), Expr::value(Decimal::new(1, 0))),
        "String" => Expr::trim(Expr::value(" 1 ".to_string())),
        "DateTime" => Expr::datetime(Expr::value(1)),
        "Duration" => Expr::second(Expr::value(1)),
        "Vec" => Expr::Vec(vec![Expr::add(Expr::value(0), Expr::value(1))]),
        "Map" => Expr::Map([("a".to_string(), Expr::value(1))].into_iter().collect()),
        _ => unreachable!(),
    }
}

fn is_type_error(o: &Obs) -> bool {
    matches!(o, Obs::Err { cls, .. } if *cls == crate::refeval::cls::INVALID_TYPE)
}

fn describe(o: &Obs) -> &'static str {
    match o {
        Obs::Val(_) => "value",
        Obs::Err { .. } => "other-error",
        Obs::Panic(_) => "panic",
    }
}

fn expect_type_error(ctx: &mut Ctx, e: &Expr, cell: &str, ctxname: &str) {
    let none = Value::None;
    ctx.begin(|| format!("{cell}\t{}", show_expr(e)));
    ctx.count();
    ctx.nontrivial(fnv(format!("{e:?}").as_bytes()));
    ctx.hit(&format!("unsupported:{cell}"));
    ctx.hit(&format!("context:{ctxname}"));
    let obs = eval_real(e, &none);
    if is_type_error(&obs) {
        ctx.sample(ctxname, || json!({"expr": show_expr(e), "observed": show_obs(&obs), "expected": "Err(InvalidType)"}));
    } else {
        let kind = describe(&obs);
        ctx.violation(
            format!("C03 {kind}-instead-of-type-error {cell}"),
            format!("an operand-type combination outside the operator table produced {} instead of a type error", show_obs(&obs)),
            json!({"expr": show_expr(e), "expr_debug": format!("{e:?}"), "observed": show_obs(&obs), "expected": "Err(InvalidType)", "context": ctxname}),
        );
    }
}

fn expect_value(ctx: &mut Ctx, e: &Expr, want: &Value, cell: &str, ctxname: &str) {
    let none = Value::None;
    ctx.begin(|| format!("{cell}\t{}", show_expr(e)));
    ctx.count();
    ctx.nontrivial(fnv(format!("{e:?}").as_bytes()));
    ctx.hit(&format!("context:{ctxname}"));
    let obs = eval_real(e, &none);
    match &obs {
        Obs::Val(v) if crate::refeval::same(v, want) => ctx.sample(ctxname, || json!({"expr": show_expr(e), "observed": show_obs(&obs)})),
        _ => ctx.violation(
            format!("C03 {ctxname} {cell}"),
            format!("expected {want:?}, observed {}", show_obs(&obs)),
            json!({"expr": show_expr(e), "expr_debug": format!("{e:?}"), "observed": show_obs(&obs), "expected": format!("Ok({want:?})")}),
        ),
    }
}

/// a sub-expression that fails loudly with a *different* error if it is ever evaluated
fn tripwire() -> Expr {
    Expr::div(Expr::value(1), Expr::value(0))
}

fn run(ctx: &mut Ctx) {
    let tup = tuples();
    // 1. unary built-ins over every non-None type
    for (name, ctor) in UNARY.iter() {
        for t in NON_NONE {
            for v in &tup[t] {
                if !ctx.mine() {
                    continue;
                }
                let cell = format!("{name}({t})");
                if unary_supported(name, t) {
                    ctx.hit(&format!("supported:{cell}"));
                    continue;
                }
                let e = ctor(Expr::value(v.clone()));
                expect_type_error(ctx, &e, &cell, "unary");
                // nested under an arithmetic parent and inside a list: the type error propagates
                let e2 = Expr::add(ctor(Expr::value(v.clone())), Expr::value(1));
                expect_type_error(ctx, &e2, &cell, "unary-under-add");
                let e3 = Expr::Vec(vec![Expr::value(1), ctor(Expr::value(v.clone()))]);
                expect_type_error(ctx, &e3, &cell, "unary-in-list");
            }
        }
    }
    // 2. binary operators over every ordered pair of non-None types, column k against column k
    //    and against column (k+1) so that both coinciding and distinct values meet
    for (name, ctor) in BINARY.iter() {
        for a in NON_NONE {
            for b in NON_NONE {
                for k in 0..6 {
                    for shift in 0..2 {
                        if !ctx.mine() {
                            continue;
                        }
                        let x = &tup[a][k];
                        let y = &tup[b][(k + shift) % 6];
                        let cell = format!("{name}({a},{b})");
                        let e = ctor(Expr::value(x.clone()), Expr::value(y.clone()));
                        match *name {
                            "eq" | "neq" => {
                                if a != b {
                                    // equality between values of different types is simply false
                                    expect_value(ctx, &e, &Value::Bool(*name == "neq"), &cell, "cross-type-equality");
                                } else {
                                    ctx.hit(&format!("supported:{cell}"));
                                }
                            }
                            "and" | "or" => {
                                // lazy: the left operand decides first
                                let decides = matches!((x, *name), (Value::Bool(false), "and") | (Value::Bool(true), "or"));
                                if a != "Bool" {
                                    expect_type_error(ctx, &e, &cell, "logical-left-non-bool");
                                    // the right operand must not have been evaluated
                                    let e2 = ctor(Expr::value(x.clone()), tripwire());
                                    expect_type_error(ctx, &e2, &cell, "logical-left-non-bool-right-unevaluated");
                                } else if decides {
                                    expect_value(ctx, &e, &Value::Bool(*name == "or"), &cell, "logical-short-circuit-skips-right");
                                } else if b != "Bool" {
                                    expect_type_error(ctx, &e, &cell, "logical-right-non-bool");
                                } else {
                                    ctx.hit(&format!("supported:{cell}"));
                                }
                            }
                            _ => {
                                if binary_supported(name, a, b) {
                                    ctx.hit(&format!("supported:{cell}"));
                                    // only casts change a value's type: same-type arithmetic stays in its type
                                    if ["add", "sub", "mult", "div", "rem"].contains(name) && a == b && matches!(a, "Int" | "Float" | "Decimal") {
                                        ctx.count();
                                        if let Obs::Val(v) = eval_real(&e, &Value::None) {
                                            ctx.hit("type-preserved-checked");
                                            if ty(&v) != a {
                                                ctx.violation(format!("C03 result-type-changed {cell}"), format!("{a} {name} {a} produced a {}", ty(&v)), json!({"expr": show_expr(&e), "observed": format!("{v:?}")}));
                                            }
                                        }
                                    }
                                } else {
                                    expect_type_error(ctx, &e, &cell, "binary");
                                    let e2 = Expr::mult(Expr::value(2), ctor(Expr::value(x.clone()), Expr::value(y.clone())));
                                    expect_type_error(ctx, &e2, &cell, "binary-under-mult");
                                    let e3 = Expr::not(ctor(Expr::value(x.clone()), Expr::value(y.clone())));
                                    expect_type_error(ctx, &e3, &cell, "binary-under-not");
                                }
                            }
                        }
                    }
                }
            }
        }
    }
    // 3. conditions: every non-Bool type as the condition of if; no branch may be evaluated
    for t in NON_NONE {
        if t == "Bool" {
            continue;
        }
        for v in &tup[t] {
            if !ctx.mine() {
                continue;
            }
            let cell = format!("if({t})");
            let e = Expr::iif(Expr::value(v.clone()), Expr::value(1), Expr::value(2));
            expect_type_error(ctx, &e, &cell, "if-condition");
            let e = Expr::iif(Expr::value(v.clone()), tripwire(), tripwire());
            expect_type_error(ctx, &e, &cell, "if-condition-branches-unevaluated");
            // a condition computed by a sub-expression
            let e = Expr::iif(Expr::index(Expr::Vec(vec![Expr::value(v.clone())]), 0usize.into()), Expr::value(1), Expr::value(2));
            expect_type_error(ctx, &e, &cell, "if-condition-computed");
            // branch shapes a "simplifying" implementation might special-case: literal true/false, the condition itself
            for (tb, fb, shape) in [
                (Expr::value(true), Expr::value(false), "true-false"), (Expr::value(false), Expr::value(true), "false-true"),
                (Expr::value(v.clone()), Expr::value(v.clone()), "condition-in-both-branches"), (Expr::none_value(), Expr::none_value(), "none-branches"),
                (Expr::value(true), Expr::value(true), "identical-branches"),
            ] {
                let e = Expr::iif(Expr::value(v.clone()), tb, fb);
                expect_type_error(ctx, &e, &cell, &format!("if-condition-{shape}"));
                let e2 = Expr::eq(e, Expr::value(v.clone()));
                expect_type_error(ctx, &e2, &cell, &format!("if-condition-{shape}-under-eq"));
            }
            // non-Bool reaching `and`/`or`/`!` through if-branches
            let e = Expr::not(Expr::iif(Expr::value(true), Expr::value(v.clone()), Expr::value(true)));
            if t != "Bool" {
                expect_type_error(ctx, &e, &format!("not({t})"), "not-of-branch-result");
            }
        }
    }
    // 3b. value-dependent coercion: the whole boundary pool (247 values) in both positions of every binary
    //     operator, and in the single position of every built-in — whatever the VALUES, an unsupported
    //     type combination is a type error and cross-type equality is false
    {
        let pool = crate::pools::pool();
        for (name, ctor) in UNARY.iter() {
            for v in &pool.all {
                let t = ty(v);
                if t == "None" || unary_supported(name, t) || !ctx.mine() {
                    continue;
                }
                expect_type_error(ctx, &ctor(Expr::value(v.clone())), &format!("{name}({t})"), "whole-pool-unary");
            }
        }
        for (name, ctor) in BINARY.iter() {
            for x in &pool.all {
                for y in &pool.all {
                    let (a, b) = (ty(x), ty(y));
                    if a == "None" || b == "None" {
                        continue;
                    }
                    let e = || ctor(Expr::value(x.clone()), Expr::value(y.clone()));
                    match *name {
                        "eq" | "neq" => {
                            if a != b && ctx.mine() {
                                expect_value(ctx, &e(), &Value::Bool(*name == "neq"), &format!("{name}({a},{b})"), "whole-pool-cross-type-equality");
                            }
                        }
                        "and" | "or" => {
                            let decides = matches!((x, *name), (Value::Bool(false), "and") | (Value::Bool(true), "or"));
                            if (a != "Bool" || (!decides && b != "Bool")) && ctx.mine() {
                                expect_type_error(ctx, &e(), &format!("{name}({a},{b})"), "whole-pool-logical");
                            }
                        }
                        _ => {
                            if !binary_supported(name, a, b) && ctx.mine() {
                                expect_type_error(ctx, &e(), &format!("{name}({a},{b})"), "whole-pool-binary");
                            }
                        }
                    }
                }
            }
        }
    }
    // 3c. the same unsupported cells with operands that are not literals: fields of the input, `facts`
    //     itself, symbols, results of user functions, list elements, if-branches
    {
        use crate::fixture::build;
        use crate::instr::{FaultPlan, FnDesc, Kind};
        let descs = vec![FnDesc { name: "v", cacheable: false, kind: Kind::V, suspend: 0 }, FnDesc { name: "cv", cacheable: true, kind: Kind::V, suspend: 0 }];
        for (name, ctor) in BINARY.iter() {
            if ["eq", "neq", "and", "or"].contains(name) {
                continue;
            }
            for a in NON_NONE {
                for b in NON_NONE {
                    if binary_supported(name, a, b) || !ctx.mine() {
                        continue;
                    }
                    let (x, y) = (tup[a][0].clone(), tup[b][0].clone());
                    let mut facts = BTreeMap::new();
                    facts.insert("a".to_string(), x.clone());
                    facts.insert("b".to_string(), y.clone());
                    let facts = Value::Map(facts);
                    let mut symbols = BTreeMap::new();
                    symbols.insert("sa".to_string(), x.clone());
                    symbols.insert("sb".to_string(), y.clone());
                    let lit = |v: &Value| Expr::value(v.clone());
                    let rules = vec![
                        ("via input fields".to_string(), ctor(Expr::reff("a"), Expr::reff("b"))),
                        ("via facts".to_string(), ctor(Expr::index(Expr::reff("facts"), "a".into()), Expr::index(Expr::reff("facts"), "b".into()))),
                        ("via symbols".to_string(), ctor(Expr::symbol("sa"), Expr::symbol("sb"))),
                        ("via function results".to_string(), ctor(Expr::func("v", lit(&x)), Expr::func("cv", lit(&y)))),
                        ("via list elements".to_string(), ctor(Expr::index(Expr::Vec(vec![lit(&x)]), 0usize.into()), Expr::index(Expr::Vec(vec![lit(&y), lit(&x)]), 0usize.into()))),
                        ("via if branches".to_string(), ctor(Expr::iif(Expr::value(true), lit(&x), lit(&y)), Expr::iif(Expr::value(false), lit(&x), lit(&y)))),
                        ("mixed".to_string(), ctor(Expr::reff("a"), Expr::func("v", Expr::symbol("sb")))),
                        // operands that are the RESULT of an operator producing that type (a Bool out of a comparison, …)
                        ("via computed operands".to_string(), ctor(computed(a), computed(b))),
                        ("via computed left operand".to_string(), ctor(computed(a), lit(&y))),
                        ("via computed right operand".to_string(), ctor(lit(&x), computed(b))),
                    ];
                    let fx = build(&descs, &symbols, &rules, FaultPlan::default());
                    let cell = format!("{name}({a},{b})");
                    match fx.eval(&facts, 1) {
                        Ok(res) => {
                            for (rule, obs) in res.outcomes {
                                ctx.count();
                                ctx.hit("context:operands-not-literals");
                                ctx.nontrivial(fnv(format!("{cell}|{rule}").as_bytes()));
                                if !is_type_error(&obs) {
                                    ctx.violation(format!("C03 {}-instead-of-type-error {cell} ({rule})", describe(&obs)), format!("operands arriving {rule}: {}", show_obs(&obs)), json!({"cell": cell, "how": rule, "left": format!("{x:?}"), "right": format!("{y:?}"), "observed": show_obs(&obs)}));
                                }
                            }
                        }
                        Err(p) => ctx.violation("C03 evaluation-failed", p, json!({"cell": cell})),
                    }
                }
            }
        }
    }
    // 3d. the same unsupported cells with one operand being the WHOLE input (`facts` with a scalar / list / map as the input itself)
    for (name, ctor) in BINARY.iter() {
        if ["eq", "neq", "and", "or"].contains(name) {
            continue;
        }
        for a in NON_NONE {
            for b in NON_NONE {
                if binary_supported(name, a, b) || !ctx.mine() {
                    continue;
                }
                let cell = format!("{name}({a},{b})");
                for (k, x) in tup[a].iter().enumerate().take(2) {
                    let y = &tup[b][k.min(tup[b].len() - 1)];
                    for (how, e, input) in [("left operand is the whole input", ctor(Expr::reff("facts"), Expr::value(y.clone())), x), ("right operand is the whole input", ctor(Expr::value(x.clone()), Expr::reff("facts")), y)] {
                        ctx.count();
                        ctx.hit("context:operand-is-the-whole-input");
                        ctx.nontrivial(fnv(format!("{cell}|{how}|{k}").as_bytes()));
                        let obs = crate::evalcommon::eval_real(&e, input);
                        if !is_type_error(&obs) {
                            ctx.violation(format!("C03 {}-instead-of-type-error {cell} ({how})", describe(&obs)), format!("{how}: {}", show_obs(&obs)), json!({"cell": cell, "how": how, "left": format!("{x:?}"), "right": format!("{y:?}"), "observed": show_obs(&obs)}));
                        }
                    }
                }
            }
        }
    }
    // 4. casts are the only way across: the same mixed operation succeeds once an explicit cast is applied
    if ctx.shard == 0 {
        let cases: Vec<(Expr, Value)> = vec![
            (Expr::add(Expr::value(1), Expr::int(Expr::value(1.0))), Value::Int(2)),
            (Expr::add(Expr::float(Expr::value(1)), Expr::value(1.0)), Value::Float(2.0)),
            (Expr::add(Expr::dec(Expr::value(1)), Expr::value(Decimal::new(1, 0))), Value::Decimal(Decimal::new(2, 0))),
            (Expr::eq(Expr::int(Expr::value("1".to_string())), Expr::value(1)), Value::Bool(true)),
            (Expr::eq(Expr::value("1".to_string()), Expr::value(1)), Value::Bool(false)),
        ];
        for (e, want) in cases {
            expect_value(ctx, &e, &want, "explicit-cast", "explicit-cast-bridges");
        }
    }
}

fn finish(m: &Merged, _tier: Tier) -> Finish {
    let unsupported = m.prefix_count("unsupported:");
    let supported = m.prefix_count("supported:");
    // expected sizes from the table itself
    let mut want_unsup = 0u64;
    let mut want_sup = 0u64;
    for (name, _) in UNARY.iter() {
        for t in NON_NONE {
            if unary_supported(name, t) { want_sup += 1 } else { want_unsup += 1 }
        }
    }
    for (name, _) in BINARY.iter() {
        for a in NON_NONE {
            for b in NON_NONE {
                match *name {
                    "eq" | "neq" => {
                        if a == b { want_sup += 1 }
                    }
                    "and" | "or" => {
                        if a != "Bool" || b != "Bool" { want_unsup += 1 }
                        if a == "Bool" && b == "Bool" { want_sup += 1 }
                    }
                    _ => {
                        if binary_supported(name, a, b) { want_sup += 1 } else { want_unsup += 1 }
                    }
                }
            }
        }
    }
    want_unsup += 8 + 8; // if(T) for the 8 non-Bool types, not(T) through a branch
    let mut f = Finish {
        rule: "exhaustive: every operator x every pair of the 247 pool values of non-None type whose type combination is unsupported (value-dependent coercion), operands also arriving through input fields / facts / symbols / user-function results / list elements / if-branches; and: every unary built-in x 9 non-None types, every binary operator x 81 ordered type pairs, with 6 (unary) / 12 (binary) value tuples chosen to coincide under coercion (1 / 1.0 / d1 / \"1\" / true / 1 s / epoch+1 s / [1] / {a:1}); each unsupported cell also nested under another operator; conditions of if/and/or with every non-Bool type and a tripwire (1/0) in the positions that must stay unevaluated. Oracle: the supported-cell table as data; anything else must be Err(InvalidType). Every case is non-trivial; distinct by tree".into(),
        exhaustive: true,
        exhaustive_part: "the whole workload is an enumeration; the seed is not used".into(),
        ..Default::default()
    };
    f.floors.push(floor(format!("unsupported cells exercised ({unsupported}, table says {want_unsup})"), unsupported >= want_unsup - 8));
    f.floors.push(floor(format!("supported cells recognised ({supported}, table says {want_sup})"), supported >= want_sup));
    f.floors.push(floor(format!("cross-type equality cases: {}", m.c("context:cross-type-equality")), m.c("context:cross-type-equality") >= 2 * 72 * 12));
    f.floors.push(floor(format!("whole-pool cases: {} binary, {} cross-type equality; operands-not-literals: {}", m.c("context:whole-pool-binary"), m.c("context:whole-pool-cross-type-equality"), m.c("context:operands-not-literals")), m.c("context:whole-pool-binary") >= 300_000 && m.c("context:whole-pool-cross-type-equality") >= 50_000 && m.c("context:operands-not-literals") >= 3_000));
    f.extras.insert("unsupported_cells".into(), json!(unsupported));
    f.extras.insert("supported_cells".into(), json!(supported));
    f.extras.insert("contexts".into(), json!(m.prefix_map("context:")));
    f.extras.insert("type_preservation_checks".into(), json!(m.c("type-preserved-checked")));
    f.assumptions = vec!["the set of supported cells is the table in c03.rs (unary_supported / binary_supported), written from the operator table of DESIGN.md; a cell that reval starts to support would be reported here even if it does not coerce — it then has to be added to the table deliberately".into()];
    f
}
