//! E1 (part): boundary-value pools for every `Value` type.

use chrono::{DateTime, TimeDelta, TimeZone, Utc};
use reval::value::Value;
use rust_decimal::Decimal;
use std::collections::BTreeMap;
use std::str::FromStr;

pub const TYPES: [&str; 10] = ["String", "Int", "Float", "Decimal", "Bool", "DateTime", "Duration", "Vec", "Map", "None"];

pub fn ty(v: &Value) -> &'static str {
    match v {
        Value::String(_) => "String",
        Value::Int(_) => "Int",
        Value::Float(_) => "Float",
        Value::Decimal(_) => "Decimal",
        Value::Bool(_) => "Bool",
        Value::DateTime(_) => "DateTime",
        Value::Duration(_) => "Duration",
        Value::Vec(_) => "Vec",
        Value::Map(_) => "Map",
        Value::None => "None",
    }
}

pub fn ints() -> Vec<i128> {
    let mut v: Vec<i128> = vec![
        0, 1, -1, 2, 3, 7, -7, 8, 10, 255, 256,
        (1 << 31) - 1, 1 << 31, -(1 << 31), -(1 << 31) - 1, 1 << 32,
        1 << 53, (1 << 53) + 1,
        (1 << 63) - 1, 1 << 63, -(1 << 63), -(1 << 63) - 1, 1 << 64, (1 << 64) + 1, -(1 << 64) - 1,
        1 << 96, (1 << 96) - 1,
        i128::MAX, i128::MAX - 1, i128::MIN, i128::MIN + 1, i128::MAX / 2 + 1, i128::MIN / 2 - 1,
        // chrono timestamp limits (seconds) of DateTime<Utc>
        8_210_266_876_799, 8_210_266_876_800, -8_334_601_228_800, -8_334_601_228_801,
        // TimeDelta limits: i64::MAX milliseconds
        9_223_372_036_854_775, 9_223_372_036_854_776, -9_223_372_036_854_775, -9_223_372_036_854_776,
        // try_weeks / try_days / try_hours / try_minutes limits
        15_250_284_452, 15_250_284_453, -15_250_284_452, -15_250_284_453,
        106_751_991_167, 106_751_991_168, -106_751_991_167, -106_751_991_168,
        2_562_047_788_015, 2_562_047_788_016, -2_562_047_788_015, -2_562_047_788_016,
        153_722_867_280_912, 153_722_867_280_913, -153_722_867_280_912, -153_722_867_280_913,
        1_700_000_000, 1_438_226_773, 3600, 86_400, 604_800, -86_400,
        // around Decimal::MAX = 2^96-1 = 79228162514264337593543950335
        79_228_162_514_264_337_593_543_950_335, 79_228_162_514_264_337_593_543_950_336, -79_228_162_514_264_337_593_543_950_335, -79_228_162_514_264_337_593_543_950_336,
        0b0100_1000, 0b0000_1000,
    ];
    v.sort();
    v.dedup();
    v
}

pub fn floats() -> Vec<f64> {
    let two127 = 2f64.powi(127);
    vec![
        0.0, -0.0, 1.0, -1.0, 0.5, -0.5, 1.5, 2.5, -2.5, 3.5, 0.1, 3.7, -3.7, 5.4, 1e16, 9007199254740992.0, 9007199254740993.0,
        2f64.powi(63), -(2f64.powi(63)), 2f64.powi(64),
        two127, -two127, f64::from_bits(two127.to_bits() - 1), -f64::from_bits(two127.to_bits() + 1), f64::from_bits(two127.to_bits() + 1),
        1e40, -1e40, f64::MAX, f64::MIN, f64::MIN_POSITIVE, 5e-324, f64::INFINITY, f64::NEG_INFINITY, f64::NAN,
        7.9e28, 7.922816251426434e28, 7.922816251426435e28, -7.922816251426435e28, 1e-28, 1e-30, 123456.789, 0.30000000000000004,
        1700000000.0, 8210266876799.0,
    ]
}

pub fn decimals() -> Vec<Decimal> {
    let mut negzero = Decimal::new(0, 0);
    negzero.set_sign_negative(true);
    let mut v = vec![
        Decimal::new(0, 0), Decimal::new(0, 1), negzero, Decimal::new(1, 0), Decimal::new(-1, 0), Decimal::new(5, 1), Decimal::new(-5, 1),
        Decimal::new(15, 1), Decimal::new(25, 1), Decimal::new(-25, 1), Decimal::new(35, 1), Decimal::new(1, 1),
        Decimal::new(10, 1), Decimal::new(100, 2), Decimal::new(2, 0), Decimal::new(3, 0), Decimal::new(37, 1), Decimal::new(-37, 1), Decimal::new(53, 1),
        Decimal::new(1, 28), Decimal::new(-1, 28),
        Decimal::MAX, Decimal::MIN, Decimal::MAX - Decimal::ONE, Decimal::MIN + Decimal::ONE,
        Decimal::from_str("7.9228162514264337593543950335").unwrap(),
        Decimal::from_str("-7.9228162514264337593543950335").unwrap(),
        Decimal::from_str("0.3333333333333333333333333333").unwrap(),
        Decimal::from_str("7922816251426433759354395033.5").unwrap(),
        Decimal::from_str("39614081257132168796771975168").unwrap(), // 2^95
        Decimal::new(10_000_000_000, 0), Decimal::new(123_456_789, 3),
        Decimal::from_str("0.5000000000000000000000000001").unwrap(),
        Decimal::from_str("9223372036854775807").unwrap(),
        Decimal::from_str("1700000000").unwrap(),
    ];
    v.dedup();
    v
}

pub fn datetimes() -> Vec<DateTime<Utc>> {
    vec![
        DateTime::<Utc>::MIN_UTC,
        DateTime::<Utc>::MAX_UTC,
        DateTime::<Utc>::MIN_UTC + TimeDelta::seconds(1),
        DateTime::<Utc>::MAX_UTC - TimeDelta::seconds(1),
        Utc.timestamp_opt(0, 0).unwrap(),
        Utc.with_ymd_and_hms(2015, 7, 30, 3, 26, 13).unwrap(),
        Utc.timestamp_opt(1_438_226_773, 500_000_000).unwrap(),
        Utc.timestamp_opt(-1, 0).unwrap(),
        Utc.timestamp_opt(-1, 999_999_999).unwrap(),
        Utc.timestamp_opt(-14_182_940, 250_000_000).unwrap(),
        Utc.timestamp_opt(-86_400 * 365 * 300, 1).unwrap(),
        Utc.with_ymd_and_hms(2024, 2, 29, 12, 0, 0).unwrap(),
        Utc.with_ymd_and_hms(9999, 12, 31, 23, 59, 59).unwrap(),
        Utc.with_ymd_and_hms(2016, 12, 31, 23, 59, 59).unwrap(),
        Utc.with_ymd_and_hms(1, 1, 1, 0, 0, 0).unwrap(),
        Utc.with_ymd_and_hms(-1, 6, 15, 1, 2, 3).unwrap(),
        // leap seconds (chrono keeps them as a nanosecond part >= 10^9 in second 59): a real one, one with a fraction, one at an arbitrary minute
        DateTime::from_timestamp(1_435_708_799, 1_000_000_000).unwrap(),
        DateTime::from_timestamp(1_483_228_799, 1_500_000_000).unwrap(),
        DateTime::from_timestamp(1_435_667_699, 1_999_999_999).unwrap(),
    ]
}

pub fn durations() -> Vec<TimeDelta> {
    vec![
        TimeDelta::zero(),
        TimeDelta::seconds(1),
        TimeDelta::seconds(-1),
        TimeDelta::nanoseconds(1),
        TimeDelta::nanoseconds(-1),
        TimeDelta::weeks(1),
        TimeDelta::days(1),
        TimeDelta::days(4),
        TimeDelta::hours(1),
        TimeDelta::minutes(90),
        TimeDelta::milliseconds(59_999),
        TimeDelta::milliseconds(-59_999),
        TimeDelta::seconds(-3600 * 24 * 8 - 5),
        TimeDelta::MAX,
        TimeDelta::MIN,
        TimeDelta::MAX - TimeDelta::seconds(1),
        TimeDelta::MIN + TimeDelta::seconds(1),
        TimeDelta::seconds(8_210_266_876_799 + 8_334_601_228_800 - 10),
    ]
}

pub fn strings() -> Vec<String> {
    [
        "", "1", "i1", " 5 ", "+5", "-5", "1e5", "inf", "-inf", "NaN", "nan", "infinity", "0.1", ".5", "5.", "abc", "ABC", "aBc", "ß", "İ", "ǆ", "ǅ", "  pad\t\n", "\u{a0}x\u{a0}", "\u{2003}y",
        "2015-07-30T03:26:13Z", "2015-07-30 03:26:13 UTC", "2015-07-30T03:26:13+02:00", "2015-07-30T03:26:13.123456789Z", "2015-13-01T00:00:00Z", "2015-07-30", "+262142-12-31T23:59:59Z", "+262143-01-01T00:00:00Z", "2016-12-31T23:59:60Z",
        "170141183460469231731687303715884105727", "170141183460469231731687303715884105728", "-170141183460469231731687303715884105728", "-170141183460469231731687303715884105729",
        "79228162514264337593543950335", "79228162514264337593543950336", "1.0000000000000000000000000000001", "0.00000000000000000000000000001", "1_000", "0x10", "1e400", "-1e400", "1e-400", "1e-2147483648", "1e2147483647", "7.25E-2147483648", "1e-999999999", "1e999999999", "1e-2147483649", "1E5", "1e5", "1.5e3",
        "a", "b", "bc", "true", "none", "x\"y", "back\\slash", "item1",
        // case mapping that depends on context or changes length: final sigma, ligatures, dotless/dotted i, titlecase digraphs
        "ΟΔΟΣ", "ΑΣ ΑΣ.", "Σ", "aΣb", "ﬁn ﬂ", "ŉ", "ǰ", "ΐ", "ı", "I", "ǈ", "ᾳ", "ᾼ", "straße STRASSE", "éÉ",
    ]
    .iter()
    .map(|s| s.to_string())
    .collect()
}

pub fn vecs() -> Vec<Vec<Value>> {
    vec![
        vec![],
        vec![Value::Int(1)],
        vec![Value::None],
        vec![Value::Int(1), Value::Float(1.0), Value::String("1".into())],
        vec![Value::Vec(vec![Value::Int(1)])],
        vec![Value::Int(1), Value::Vec(vec![Value::Int(2), Value::Vec(vec![Value::Int(3)])])],
        vec![Value::String("a".into()), Value::String("b".into())],
        vec![Value::Bool(true)],
        vec![Value::Float(f64::NAN), Value::Decimal(Decimal::new(10, 1))],
        // the same number in another numeric type / another scale: equal lists only if no element is coerced
        vec![Value::Float(1.0)],
        vec![Value::Decimal(Decimal::new(1, 0))],
        vec![Value::Decimal(Decimal::new(10, 1))],
        vec![Value::Int(1), Value::Int(2)],
        vec![Value::Int(2), Value::Int(1)],
        vec![Value::Float(0.0)],
        vec![Value::Float(-0.0)],
        vec![Value::Map(map(&[("a", Value::Int(1))]))],
    ]
}

fn map(items: &[(&str, Value)]) -> BTreeMap<String, Value> {
    items.iter().map(|(k, v)| (k.to_string(), v.clone())).collect()
}

pub fn maps() -> Vec<BTreeMap<String, Value>> {
    vec![
        map(&[]),
        map(&[("a", Value::Int(1))]),
        map(&[("a", Value::None)]),
        map(&[("1", Value::Int(1))]),
        map(&[("a", Value::Map(map(&[("b", Value::Map(map(&[("c", Value::Int(3))])))])))]),
        map(&[("b", Value::String("x".into())), ("a", Value::Vec(vec![Value::Int(1)]))]),
        map(&[("abc", Value::Int(1)), ("", Value::Int(0))]),
        map(&[("a", Value::Float(1.0))]),
        map(&[("a", Value::Decimal(Decimal::new(1, 0)))]),
        map(&[("a", Value::String("1".into()))]),
        map(&[("A", Value::Int(1))]),
        map(&[("a", Value::Vec(vec![Value::Int(1)]))]),
    ]
}

/// A random value of the given type, NOT from the boundary pool: random magnitudes, scales, lengths and
/// characters, so that faults confined to "ordinary" operands (a residue class, a scale difference, a string
/// longer than some buffer) have a chance of being met.
pub fn random_value(rng: &mut crate::rng::Rng, t: &str) -> Value {
    match t {
        "Int" => {
            let bits = 1 + rng.below(127);
            let mask = if bits >= 127 { i128::MAX } else { (1i128 << bits) - 1 };
            let x = rng.i128() & mask;
            Value::Int(if rng.chance(1, 2) { x } else { -x })
        }
        "Float" => match rng.below(4) {
            0 => Value::Float(f64::from_bits(rng.next())),
            1 => Value::Float((rng.range(-1_000_000, 1_000_000) as f64) / 8.0),
            2 => Value::Float((rng.range(-100_000, 100_000) as f64) + 0.5),
            _ => {
                let m = rng.next() & ((1 << 52) - 1);
                let e = (1023 - 60 + rng.below(120)) as u64;
                Value::Float(f64::from_bits((e << 52) | m | ((rng.next() & 1) << 63)))
            }
        },
        "Decimal" => {
            let bits = 1 + rng.below(96);
            let m = (rng.i128() as u128) & ((1u128 << bits) - 1);
            let mut d = Decimal::from_i128_with_scale(m as i128, rng.below(29) as u32);
            d.set_sign_negative(rng.chance(1, 2));
            Value::Decimal(d)
        }
        "String" => {
            let alphabet: Vec<char> = "abcXYZ019 _-.,:;/+\t\n\"'\\éßΣσςİıǅﬁ中\u{a0}\u{301}\u{1F600}".chars().collect();
            let len = match rng.below(5) {
                0 => rng.below(4),
                1 | 2 => rng.below(24),
                3 => 30 + rng.below(70),
                _ => 200 + rng.below(400),
            };
            Value::String((0..len).map(|_| alphabet[rng.below(alphabet.len())]).collect())
        }
        "Bool" => Value::Bool(rng.chance(1, 2)),
        "DateTime" => {
            let secs = match rng.below(3) {
                0 => rng.range(-8_334_601_228_800, 8_210_266_876_799),
                1 => rng.range(-2_000_000_000, 4_000_000_000),
                _ => rng.range(-62_135_596_800, 253_402_300_799), // years 1..9999
            };
            let nanos = if rng.chance(1, 2) { 0 } else { rng.below(1_000_000_000) as u32 };
            if rng.chance(1, 16) {
                // a leap second: second 59 of some minute with a nanosecond part >= 10^9
                let s59 = secs - secs.rem_euclid(60) + 59;
                if let Some(d) = DateTime::from_timestamp(s59, 1_000_000_000 + nanos) {
                    return Value::DateTime(d);
                }
            }
            Value::DateTime(DateTime::from_timestamp(secs, nanos).unwrap_or(DateTime::<Utc>::MIN_UTC))
        }
        "Duration" => {
            let secs = match rng.below(3) {
                0 => rng.range(-9_223_372_036_854_775, 9_223_372_036_854_775),
                1 => rng.range(-10_000_000, 10_000_000),
                _ => rng.range(-100, 100),
            };
            let d = TimeDelta::try_seconds(secs).unwrap_or(TimeDelta::zero());
            let n = TimeDelta::nanoseconds(rng.range(-999_999_999, 999_999_999));
            Value::Duration(d.checked_add(&n).unwrap_or(d))
        }
        "Vec" => {
            let n = if rng.chance(1, 10) { 20 + rng.below(50) } else { rng.below(5) };
            Value::Vec((0..n).map(|_| {
                let t = *rng.pick(&["Int", "Float", "String", "Bool", "None", "Decimal"]);
                random_value(rng, t)
            }).collect())
        }
        "Map" => {
            let n = if rng.chance(1, 10) { 17 + rng.below(30) } else { rng.below(5) };
            Value::Map((0..n).map(|i| {
                let t = *rng.pick(&["Int", "Float", "String", "Bool", "None"]);
                (format!("{}{}", rng.pick(&["a", "b", "key", "K", "é"]), if rng.chance(1, 2) { i.to_string() } else { String::new() }), random_value(rng, t))
            }).collect())
        }
        _ => Value::None,
    }
}

pub struct Pool {
    pub all: Vec<Value>,
    /// index ranges per type name
    pub by_type: BTreeMap<&'static str, Vec<usize>>,
}

impl Pool {
    pub fn of(&self, t: &str) -> &[usize] {
        self.by_type.get(t).map(|v| v.as_slice()).unwrap_or(&[])
    }
}

pub fn pool() -> Pool {
    let mut all: Vec<Value> = vec![];
    all.extend(strings().into_iter().map(Value::String));
    all.extend(ints().into_iter().map(Value::Int));
    all.extend(floats().into_iter().map(Value::Float));
    all.extend(decimals().into_iter().map(Value::Decimal));
    all.push(Value::Bool(true));
    all.push(Value::Bool(false));
    all.extend(datetimes().into_iter().map(Value::DateTime));
    all.extend(durations().into_iter().map(Value::Duration));
    all.extend(vecs().into_iter().map(Value::Vec));
    all.extend(maps().into_iter().map(Value::Map));
    all.push(Value::None);
    let mut by_type: BTreeMap<&'static str, Vec<usize>> = BTreeMap::new();
    for (i, v) in all.iter().enumerate() {
        by_type.entry(ty(v)).or_default().push(i);
    }
    Pool { all, by_type }
}

/// A reduced pool (~35 values) for exhaustive depth-2 compositions.
pub fn small_pool() -> Vec<Value> {
    let mut negzero = Decimal::new(0, 0);
    negzero.set_sign_negative(true);
    vec![
        Value::Int(0), Value::Int(1), Value::Int(-1), Value::Int(7), Value::Int(i128::MAX), Value::Int(i128::MIN), Value::Int(1 << 64), Value::Int(8_210_266_876_799),
        Value::Float(0.0), Value::Float(-0.0), Value::Float(1.0), Value::Float(2.5), Value::Float(f64::INFINITY), Value::Float(f64::NAN), Value::Float(1e40),
        Value::Decimal(Decimal::new(0, 0)), Value::Decimal(Decimal::new(1, 0)), Value::Decimal(Decimal::new(25, 1)), Value::Decimal(Decimal::MAX), Value::Decimal(Decimal::new(1, 28)),
        Value::String("".into()), Value::String("1".into()), Value::String("aBc".into()), Value::String("2015-07-30T03:26:13Z".into()),
        Value::Bool(true), Value::Bool(false),
        Value::DateTime(DateTime::<Utc>::MAX_UTC), Value::DateTime(Utc.with_ymd_and_hms(2015, 7, 30, 3, 26, 13).unwrap()),
        Value::Duration(TimeDelta::seconds(1)), Value::Duration(TimeDelta::MAX),
        Value::Vec(vec![Value::Int(1), Value::None]), Value::Vec(vec![]),
        Value::Map(map(&[("a", Value::Int(1))])),
        Value::None,
    ]
}
