//! E2 — reference evaluator over the public `Expr` enum, written from the property statements
//! (C01–C05, C10, C11) and the operator table recorded in DESIGN.md, not transliterated from
//! `eval/mod.rs`. Checked arithmetic everywhere; every range failure is an error; the result is
//! either a value or a *set* of admissible error variants plus the payload the statements fix.

use chrono::{DateTime, Datelike, TimeDelta, Timelike, Utc};
use reval::expr::{Expr, Index};
use reval::value::Value;
use rust_decimal::prelude::*;
use rust_decimal::RoundingStrategy;
use std::collections::BTreeMap;

pub mod cls {
    pub const INVALID_TYPE: u32 = 1;
    pub const INVALID_CAST: u32 = 2;
    pub const OUT_OF_BOUNDS: u32 = 4;
    pub const NUMERIC_OVERFLOW: u32 = 8;
    pub const DIV_ZERO: u32 = 16;
    pub const UNKNOWN_REF: u32 = 32;
    pub const UNKNOWN_INDEX: u32 = 64;
    pub const USER_FN: u32 = 128;
    pub const UNKNOWN_FN: u32 = 256;
    pub const INVALID_SYMBOL: u32 = 512;
    pub const SER: u32 = 1024;
    pub const UNEXPECTED_TYPE: u32 = 2048;
    pub const BUILDER: u32 = 4096;
    /// an error variant that did not exist when the monitors were written (never expected by any oracle)
    pub const OTHER: u32 = 8192;
    /// arithmetic / date range failure: "out of bounds" family
    pub const RANGE: u32 = OUT_OF_BOUNDS | NUMERIC_OVERFLOW;

    pub fn names(mask: u32) -> String {
        let all = [
            (INVALID_TYPE, "InvalidType"), (INVALID_CAST, "InvalidCast"), (OUT_OF_BOUNDS, "ValueOutOfBounds"), (NUMERIC_OVERFLOW, "NumericOverflow"),
            (DIV_ZERO, "DivisionByZero"), (UNKNOWN_REF, "UnknownRef"), (UNKNOWN_INDEX, "UnknownIndex"), (USER_FN, "UserFunctionError"),
            (UNKNOWN_FN, "UnknownUserFunction"), (INVALID_SYMBOL, "InvalidSymbol"), (SER, "ValueSerializationError"), (UNEXPECTED_TYPE, "UnexpectedValueType"), (BUILDER, "builder-error"), (OTHER, "unknown-error-variant"),
        ];
        all.iter().filter(|(m, _)| mask & m != 0).map(|(_, n)| *n).collect::<Vec<_>>().join("|")
    }
}

#[derive(Clone, Debug)]
pub enum Pay {
    Any,
    Val(Value),
    Name(String),
    Func { name: String, text: String },
}

#[derive(Clone, Debug)]
pub struct ErrExp {
    pub allowed: u32,
    pub pay: Pay,
    /// the failure is "result outside the range of its type" (the C01 no-silent-overflow clause)
    pub range: bool,
    /// the statements do not fix this cell: any value or any of `allowed` is accepted
    pub wide: bool,
    /// cell name, e.g. "add(Int,Int)"
    pub cell: String,
}

pub type Exp = Result<Value, ErrExp>;

#[derive(Debug)]
pub enum Obs {
    Val(Value),
    Err { cls: u32, name: String, pay: Pay, text: String },
    Panic(String),
}

pub fn classify(e: &reval::Error) -> Obs {
    use reval::Error as E;
    let text = e.to_string();
    let (c, n, p) = match e {
        E::InvalidType => (cls::INVALID_TYPE, "InvalidType", Pay::Any),
        E::InvalidCast(v, _) => (cls::INVALID_CAST, "InvalidCast", Pay::Val(v.clone())),
        E::ValueOutOfBounds(v, _) => (cls::OUT_OF_BOUNDS, "ValueOutOfBounds", Pay::Val(v.clone())),
        E::NumericOverflow(_) => (cls::NUMERIC_OVERFLOW, "NumericOverflow", Pay::Any),
        E::DivisionByZero => (cls::DIV_ZERO, "DivisionByZero", Pay::Any),
        E::UnknownRef(n) => (cls::UNKNOWN_REF, "UnknownRef", Pay::Name(n.clone())),
        E::UnknownIndex(n) => (cls::UNKNOWN_INDEX, "UnknownIndex", Pay::Name(n.clone())),
        E::UserFunctionError { function, error } => (cls::USER_FN, "UserFunctionError", Pay::Func { name: function.clone(), text: error.to_string() }),
        E::UnknownUserFunction(n) => (cls::UNKNOWN_FN, "UnknownUserFunction", Pay::Name(n.clone())),
        E::InvalidSymbol(n) => (cls::INVALID_SYMBOL, "InvalidSymbol", Pay::Name(n.clone())),
        E::ValueSerializationError(m) => (cls::SER, "ValueSerializationError", Pay::Name(m.clone())),
        E::UnexpectedValueType(v, _) => (cls::UNEXPECTED_TYPE, "UnexpectedValueType", Pay::Val(v.clone())),
        E::InvalidFunctionName(n) => (cls::BUILDER, "InvalidFunctionName", Pay::Name(n.clone())),
        E::DuplicateFunctionName(n) => (cls::BUILDER, "DuplicateFunctionName", Pay::Name(n.clone())),
        E::DuplicateRuleName(n) => (cls::BUILDER, "DuplicateRuleName", Pay::Name(n.clone())),
        // a variant added after the monitors were written must not stop them from building: it is an error no oracle expects
        #[allow(unreachable_patterns)]
        _ => (cls::OTHER, "unknown-error-variant", Pay::Any),
    };
    Obs::Err { cls: c, name: n.to_string(), pay: p, text }
}

pub fn observe(r: Result<reval::Result<Value>, String>) -> Obs {
    match r {
        Ok(Ok(v)) => Obs::Val(v),
        Ok(Err(e)) => classify(&e),
        Err(p) => Obs::Panic(p),
    }
}

/// Structural identity used to compare results: Float by bit pattern except NaN = NaN,
/// Decimal by numeric value and scale.
pub fn same(a: &Value, b: &Value) -> bool {
    match (a, b) {
        (Value::String(x), Value::String(y)) => x == y,
        (Value::Int(x), Value::Int(y)) => x == y,
        (Value::Float(x), Value::Float(y)) => (x.is_nan() && y.is_nan()) || x.to_bits() == y.to_bits(),
        (Value::Decimal(x), Value::Decimal(y)) => x == y && x.scale() == y.scale(),
        (Value::Bool(x), Value::Bool(y)) => x == y,
        (Value::DateTime(x), Value::DateTime(y)) => x == y,
        (Value::Duration(x), Value::Duration(y)) => x == y,
        (Value::Vec(x), Value::Vec(y)) => x.len() == y.len() && x.iter().zip(y).all(|(p, q)| same(p, q)),
        (Value::Map(x), Value::Map(y)) => x.len() == y.len() && x.iter().zip(y).all(|((k1, p), (k2, q))| k1 == k2 && same(p, q)),
        (Value::None, Value::None) => true,
        _ => false,
    }
}

/// The language's `==`: same type and equal under that type's own equality; anything else false.
pub fn lang_eq(a: &Value, b: &Value) -> bool {
    match (a, b) {
        (Value::String(x), Value::String(y)) => x == y,
        (Value::Int(x), Value::Int(y)) => x == y,
        (Value::Float(x), Value::Float(y)) => x == y,
        (Value::Decimal(x), Value::Decimal(y)) => x == y,
        (Value::Bool(x), Value::Bool(y)) => x == y,
        (Value::DateTime(x), Value::DateTime(y)) => x == y,
        (Value::Duration(x), Value::Duration(y)) => x == y,
        (Value::Vec(x), Value::Vec(y)) => x.len() == y.len() && x.iter().zip(y).all(|(p, q)| lang_eq(p, q)),
        (Value::Map(x), Value::Map(y)) => x.len() == y.len() && x.iter().zip(y).all(|((k1, p), (k2, q))| k1 == k2 && lang_eq(p, q)),
        (Value::None, Value::None) => true,
        _ => false,
    }
}

/// Mismatch kinds returned by `compare` (None = agrees with the reference).
pub fn compare(exp: &Exp, obs: &Obs) -> Option<String> {
    match (exp, obs) {
        (_, Obs::Panic(_)) => Some("panic".into()),
        (Ok(v), Obs::Val(o)) => {
            if same(v, o) {
                None
            } else {
                Some("wrong-value".into())
            }
        }
        (Ok(_), Obs::Err { name, .. }) => Some(format!("error-instead-of-value:{name}")),
        (Err(e), Obs::Val(_)) => {
            if e.wide {
                None
            } else if e.range {
                Some("value-instead-of-range-error".into())
            } else {
                Some("value-instead-of-error".into())
            }
        }
        (Err(e), Obs::Err { cls: c, name, pay, .. }) => {
            if e.allowed & c == 0 {
                return Some(format!("wrong-error:{name}"));
            }
            let pay_ok = match (&e.pay, pay) {
                (Pay::Any, _) => true,
                (_, Pay::Any) => true, // variant carries nothing to compare (e.g. NumericOverflow)
                (Pay::Val(a), Pay::Val(b)) => same(a, b),
                (Pay::Name(a), Pay::Name(b)) => a == b,
                (Pay::Func { name: n1, text: t1 }, Pay::Func { name: n2, text: t2 }) => n1 == n2 && t1 == t2,
                _ => false,
            };
            if pay_ok {
                None
            } else {
                Some(format!("wrong-error-payload:{name}"))
            }
        }
    }
}

// ---------------------------------------------------------------------------------------------

pub enum CallRes {
    Unknown,
    Ok(Value),
    Fail(String),
}

/// What the reference evaluator needs from its surroundings.
pub trait Host {
    fn symbol(&self, name: &str) -> Option<Value>;
    /// one *call* of a user function (the host models caching / fault plans / logging)
    fn call(&mut self, name: &str, arg: &Value) -> CallRes;
}

pub struct NoHost;
impl Host for NoHost {
    fn symbol(&self, _: &str) -> Option<Value> {
        None
    }
    fn call(&mut self, _: &str, _: &Value) -> CallRes {
        CallRes::Unknown
    }
}

fn tname(v: &Value) -> &'static str {
    crate::pools::ty(v)
}

fn err(allowed: u32, cell: String) -> ErrExp {
    ErrExp { allowed, pay: Pay::Any, range: false, wide: false, cell }
}
fn type_err(cell: String) -> ErrExp {
    err(cls::INVALID_TYPE, cell)
}
fn range_err(allowed: u32, cell: String) -> ErrExp {
    ErrExp { allowed, pay: Pay::Any, range: true, wide: false, cell }
}

pub fn cell1(op: &str, a: &Value) -> String {
    format!("{op}({})", tname(a))
}
pub fn cell2(op: &str, a: &Value, b: &Value) -> String {
    format!("{op}({},{})", tname(a), tname(b))
}

pub struct RefEval<'a> {
    pub facts: &'a Value,
    pub host: &'a mut dyn Host,
    /// set when a cell the statements leave open was met: the top-level outcome is unconstrained
    pub wide_hit: bool,
    pub steps: u64,
}

const TWO127: f64 = 170141183460469231731687303715884105728.0;

impl<'a> RefEval<'a> {
    pub fn new(facts: &'a Value, host: &'a mut dyn Host) -> Self {
        RefEval { facts, host, wide_hit: false, steps: 0 }
    }

    pub fn eval(&mut self, e: &Expr) -> Exp {
        self.steps += 1;
        match e {
            Expr::Value(v) => Ok(v.clone()),
            Expr::Reference(name) => self.reference(name),
            Expr::Symbol(name) => self.host.symbol(name).ok_or_else(|| ErrExp { pay: Pay::Name(name.clone()), ..err(cls::INVALID_SYMBOL, "symbol".into()) }),
            Expr::Index(inner, idx) => {
                let v = self.eval(inner)?;
                index(&v, idx)
            }
            Expr::Function(name, arg) => {
                let a = self.eval(arg)?;
                match self.host.call(name, &a) {
                    CallRes::Unknown => Err(ErrExp { pay: Pay::Name(name.clone()), ..err(cls::UNKNOWN_FN, "call".into()) }),
                    CallRes::Ok(v) => Ok(v),
                    CallRes::Fail(text) => Err(ErrExp { pay: Pay::Func { name: name.clone(), text }, ..err(cls::USER_FN, "call".into()) }),
                }
            }
            Expr::If(c, t, f) => match self.eval(c)? {
                Value::Bool(true) => self.eval(t),
                Value::Bool(false) => self.eval(f),
                other => Err(type_err(cell1("if", &other))),
            },
            Expr::And(l, r) => match self.eval(l)? {
                Value::Bool(false) => Ok(Value::Bool(false)),
                Value::Bool(true) => match self.eval(r)? {
                    Value::Bool(b) => Ok(Value::Bool(b)),
                    other => Err(type_err(format!("and(Bool,{})", tname(&other)))),
                },
                other => Err(type_err(format!("and({},_)", tname(&other)))),
            },
            Expr::Or(l, r) => match self.eval(l)? {
                Value::Bool(true) => Ok(Value::Bool(true)),
                Value::Bool(false) => match self.eval(r)? {
                    Value::Bool(b) => Ok(Value::Bool(b)),
                    other => Err(type_err(format!("or(Bool,{})", tname(&other)))),
                },
                other => Err(type_err(format!("or({},_)", tname(&other)))),
            },
            Expr::Equals(l, r) => self.equality(l, r, false),
            Expr::NotEquals(l, r) => self.equality(l, r, true),
            Expr::Vec(items) => {
                let mut out = Vec::with_capacity(items.len());
                for it in items {
                    out.push(self.eval(it)?);
                }
                Ok(Value::Vec(out))
            }
            Expr::Map(items) => {
                // BTreeMap iterates in key order, which is the order the statement (C05) fixes
                let mut out = BTreeMap::new();
                for (k, it) in items {
                    out.insert(k.clone(), self.eval(it)?);
                }
                Ok(Value::Map(out))
            }
            Expr::Not(x) => self.un("not", x),
            Expr::Neg(x) => self.un("neg", x),
            Expr::Some(x) => self.un("some", x),
            Expr::None(x) => self.un("none", x),
            Expr::Int(x) => self.un("int", x),
            Expr::Float(x) => self.un("float", x),
            Expr::Dec(x) => self.un("dec", x),
            Expr::DateTime(x) => self.un("datetime", x),
            Expr::Duration(x) => self.un("duration", x),
            Expr::UpperCase(x) => self.un("uppercase", x),
            Expr::LowerCase(x) => self.un("lowercase", x),
            Expr::Trim(x) => self.un("trim", x),
            Expr::Floor(x) => self.un("floor", x),
            Expr::Round(x) => self.un("round", x),
            Expr::Fract(x) => self.un("fract", x),
            Expr::Year(x) => self.un("year", x),
            Expr::Month(x) => self.un("month", x),
            Expr::Week(x) => self.un("week", x),
            Expr::Day(x) => self.un("day", x),
            Expr::Hour(x) => self.un("hour", x),
            Expr::Minute(x) => self.un("minute", x),
            Expr::Second(x) => self.un("second", x),
            Expr::Mult(l, r) => self.bin("mult", l, r),
            Expr::Div(l, r) => self.bin("div", l, r),
            Expr::Rem(l, r) => self.bin("rem", l, r),
            Expr::Add(l, r) => self.bin("add", l, r),
            Expr::Sub(l, r) => self.bin("sub", l, r),
            Expr::GreaterThan(l, r) => self.bin("gt", l, r),
            Expr::GreaterThanEquals(l, r) => self.bin("gte", l, r),
            Expr::LessThan(l, r) => self.bin("lt", l, r),
            Expr::LessThanEquals(l, r) => self.bin("lte", l, r),
            Expr::BitAnd(l, r) => self.bin("bitand", l, r),
            Expr::BitOr(l, r) => self.bin("bitor", l, r),
            Expr::BitXor(l, r) => self.bin("bitxor", l, r),
            Expr::Contains(l, r) => self.bin("contains", l, r),
        }
    }

    fn reference(&mut self, name: &str) -> Exp {
        if name == "facts" {
            return Ok(self.facts.clone());
        }
        match self.facts {
            Value::Map(m) => m.get(name).cloned().ok_or_else(|| ErrExp { pay: Pay::Name(name.to_string()), ..err(cls::UNKNOWN_REF, "ref".into()) }),
            other => Err(type_err(format!("ref-into({})", tname(other)))),
        }
    }

    fn equality(&mut self, l: &Expr, r: &Expr, negate: bool) -> Exp {
        let a = self.eval(l)?;
        if matches!(a, Value::None) {
            // C05: the right operand is not evaluated; C04: == false / != true
            return Ok(Value::Bool(negate));
        }
        let b = self.eval(r)?;
        let eq = !matches!(b, Value::None) && lang_eq(&a, &b);
        Ok(Value::Bool(eq != negate))
    }

    fn un(&mut self, op: &str, x: &Expr) -> Exp {
        let v = self.eval(x)?;
        let r = unary(op, &v);
        if let Err(e) = &r {
            if e.wide {
                self.wide_hit = true;
            }
        }
        r
    }

    fn bin(&mut self, op: &str, l: &Expr, r: &Expr) -> Exp {
        let a = self.eval(l)?;
        let b = self.eval(r)?;
        let r = binary(op, &a, &b);
        if let Err(e) = &r {
            if e.wide {
                self.wide_hit = true;
            }
        }
        r
    }
}

pub fn index(v: &Value, idx: &Index) -> Exp {
    match (v, idx) {
        (Value::None, _) => Ok(Value::None),
        (Value::Map(m), Index::Map(k)) => Ok(m.get(k).cloned().unwrap_or(Value::None)),
        (Value::Vec(xs), Index::Vec(i)) => Ok(if *i < xs.len() { xs[*i].clone() } else { Value::None }),
        (other, Index::Map(_)) => Err(type_err(format!("field({})", tname(other)))),
        (other, Index::Vec(_)) => Err(type_err(format!("index({})", tname(other)))),
    }
}

fn int_to_i64(op: &str, v: &Value, n: i128, allowed: u32) -> Result<i64, ErrExp> {
    i64::try_from(n).map_err(|_| ErrExp { pay: Pay::Val(v.clone()), ..range_err(allowed, cell1(op, v)) })
}

pub fn unary(op: &str, v: &Value) -> Exp {
    let cell = cell1(op, v);
    // some / none are total
    match op {
        "some" => return Ok(Value::Bool(!matches!(v, Value::None))),
        "none" => return Ok(Value::Bool(matches!(v, Value::None))),
        _ => {}
    }
    // C04: None propagates through every other unary operator
    if matches!(v, Value::None) {
        return Ok(Value::None);
    }
    let cast_err = |range: bool| ErrExp { allowed: cls::INVALID_CAST, pay: Pay::Val(v.clone()), range, wide: false, cell: cell.clone() };
    let oob = || ErrExp { allowed: cls::OUT_OF_BOUNDS, pay: Pay::Val(v.clone()), range: true, wide: false, cell: cell.clone() };
    match (op, v) {
        ("not", Value::Bool(b)) => Ok(Value::Bool(!b)),
        ("neg", Value::Int(n)) => n.checked_neg().map(Value::Int).ok_or_else(|| range_err(cls::RANGE, cell.clone())),
        ("neg", Value::Float(f)) => Ok(Value::Float(-f)),
        ("neg", Value::Decimal(d)) => Ok(Value::Decimal(-*d)),

        ("int", Value::Int(_)) => Ok(v.clone()),
        ("int", Value::Float(f)) => {
            let t = f.trunc();
            if f.is_nan() || !(t >= -TWO127 && t < TWO127) {
                Err(cast_err(true))
            } else {
                Ok(Value::Int(t as i128))
            }
        }
        ("int", Value::Decimal(d)) => {
            // truncate toward zero: mantissa / 10^scale
            let m = d.mantissa();
            let p = 10i128.pow(d.scale());
            Ok(Value::Int(m / p))
        }
        ("int", Value::String(s)) => s.parse::<i128>().map(Value::Int).map_err(|_| cast_err(false)),

        ("float", Value::Int(n)) => Ok(Value::Float(*n as f64)),
        ("float", Value::Float(_)) => Ok(v.clone()),
        ("float", Value::Decimal(d)) => match d.to_f64() {
            Some(f) => Ok(Value::Float(f)),
            None => Err(cast_err(true)),
        },
        ("float", Value::String(s)) => s.parse::<f64>().map(Value::Float).map_err(|_| cast_err(false)),

        ("dec", Value::Int(n)) => Decimal::from_i128(*n).map(Value::Decimal).ok_or_else(|| cast_err(true)),
        ("dec", Value::Float(f)) => Decimal::try_from(*f).map(Value::Decimal).map_err(|_| cast_err(!f.is_finite() || f.abs() >= 7.9228162514264337e28)),
        ("dec", Value::Decimal(_)) => Ok(v.clone()),
        ("dec", Value::String(s)) => Decimal::from_str(s).map(Value::Decimal).map_err(|_| cast_err(false)),

        ("datetime", Value::String(s)) => s.parse::<DateTime<Utc>>().map(Value::DateTime).map_err(|_| cast_err(false)),
        ("datetime", Value::Int(n)) => {
            let secs = int_to_i64(op, v, *n, cls::INVALID_CAST)?;
            DateTime::from_timestamp(secs, 0).map(Value::DateTime).ok_or_else(|| cast_err(true))
        }
        ("datetime", Value::DateTime(_)) => Ok(v.clone()),

        ("duration", Value::Int(n)) => {
            let secs = int_to_i64(op, v, *n, cls::INVALID_CAST)?;
            TimeDelta::try_seconds(secs).map(Value::Duration).ok_or_else(|| cast_err(true))
        }
        ("duration", Value::Duration(_)) => Ok(v.clone()),

        ("uppercase", Value::String(s)) => Ok(Value::String(s.to_uppercase())),
        ("lowercase", Value::String(s)) => Ok(Value::String(s.to_lowercase())),
        ("trim", Value::String(s)) => Ok(Value::String(s.trim().to_string())),

        ("round", Value::Float(f)) => Ok(Value::Float(round_half_away(*f))),
        ("round", Value::Decimal(d)) => Ok(Value::Decimal(d.round_dp_with_strategy(0, RoundingStrategy::MidpointNearestEven))),
        ("floor", Value::Float(f)) => Ok(Value::Float(f.floor())),
        ("floor", Value::Decimal(d)) => Ok(Value::Decimal(d.floor())),
        ("fract", Value::Float(f)) => Ok(Value::Float(f - f.trunc()).map_nan_inf(*f)),
        ("fract", Value::Decimal(d)) => Ok(Value::Decimal(d.fract())),

        ("year", Value::DateTime(d)) => Ok(Value::Int(d.year() as i128)),
        ("month", Value::DateTime(d)) => Ok(Value::Int(d.month() as i128)),
        ("day", Value::DateTime(d)) => Ok(Value::Int(d.day() as i128)),
        ("hour", Value::DateTime(d)) => Ok(Value::Int(d.hour() as i128)),
        ("minute", Value::DateTime(d)) => Ok(Value::Int(d.minute() as i128)),
        ("second", Value::DateTime(d)) => Ok(Value::Int(d.second() as i128)),

        ("week", Value::Duration(d)) => Ok(Value::Int(d.num_weeks() as i128)),
        ("day", Value::Duration(d)) => Ok(Value::Int(d.num_days() as i128)),
        ("hour", Value::Duration(d)) => Ok(Value::Int(d.num_hours() as i128)),
        ("minute", Value::Duration(d)) => Ok(Value::Int(d.num_minutes() as i128)),
        ("second", Value::Duration(d)) => Ok(Value::Int(d.num_seconds() as i128)),

        ("week" | "day" | "hour" | "minute" | "second", Value::Int(n)) => {
            let k = i64::try_from(*n).map_err(|_| oob())?;
            let d = match op {
                "week" => TimeDelta::try_weeks(k),
                "day" => TimeDelta::try_days(k),
                "hour" => TimeDelta::try_hours(k),
                "minute" => TimeDelta::try_minutes(k),
                _ => TimeDelta::try_seconds(k),
            };
            d.map(Value::Duration).ok_or_else(oob)
        }
        _ => Err(type_err(cell)),
    }
}

trait MapNanInf {
    fn map_nan_inf(self, orig: f64) -> Value;
}
impl MapNanInf for Value {
    /// fract of ±inf is NaN under IEEE (inf - inf); keep that explicit
    fn map_nan_inf(self, orig: f64) -> Value {
        if orig.is_infinite() {
            Value::Float(f64::NAN)
        } else {
            self
        }
    }
}

/// round half away from zero, written without f64::round
pub fn round_half_away(f: f64) -> f64 {
    if !f.is_finite() {
        return f;
    }
    let t = f.trunc();
    let frac = (f - t).abs();
    let r = if frac >= 0.5 { t + f.signum() } else { t };
    // keep the sign of zero results (IEEE round(-0.2) = -0.0)
    if r == 0.0 {
        0.0f64.copysign(f)
    } else {
        r
    }
}

fn cmp_result(op: &str, ord: Option<std::cmp::Ordering>) -> Value {
    use std::cmp::Ordering::*;
    Value::Bool(match (op, ord) {
        (_, None) => false, // NaN
        ("gt", Some(o)) => o == Greater,
        ("gte", Some(o)) => o != Less,
        ("lt", Some(o)) => o == Less,
        ("lte", Some(o)) => o != Greater,
        _ => unreachable!(),
    })
}

pub fn binary(op: &str, a: &Value, b: &Value) -> Exp {
    let cell = cell2(op, a, b);
    let a_none = matches!(a, Value::None);
    let b_none = matches!(b, Value::None);
    match op {
        "add" | "sub" | "mult" | "div" | "rem" | "bitand" | "bitor" | "bitxor" => {
            if a_none || b_none {
                return Ok(Value::None);
            }
        }
        "gt" | "gte" | "lt" | "lte" => {
            if a_none || b_none {
                return Ok(Value::Bool(false));
            }
        }
        "contains" => {
            if a_none {
                return Ok(Value::Bool(false));
            }
        }
        _ => unreachable!("binary op {op}"),
    }
    let range = || range_err(cls::RANGE, cell.clone());
    match (op, a, b) {
        ("add", Value::Int(x), Value::Int(y)) => x.checked_add(*y).map(Value::Int).ok_or_else(range),
        ("sub", Value::Int(x), Value::Int(y)) => x.checked_sub(*y).map(Value::Int).ok_or_else(range),
        ("mult", Value::Int(x), Value::Int(y)) => x.checked_mul(*y).map(Value::Int).ok_or_else(range),
        ("div", Value::Int(x), Value::Int(y)) => {
            if *y == 0 {
                Err(err(cls::DIV_ZERO, cell))
            } else {
                match x.checked_div(*y) {
                    Some(q) => Ok(Value::Int(q)),
                    // MIN / -1: a range failure; which error is not fixed by the statements
                    None => Err(range_err(cls::RANGE | cls::DIV_ZERO, cell)),
                }
            }
        }
        ("rem", Value::Int(x), Value::Int(y)) => {
            if *y == 0 {
                Err(err(cls::DIV_ZERO, cell))
            } else {
                match x.checked_rem(*y) {
                    Some(q) => Ok(Value::Int(q)),
                    // MIN % -1: mathematically 0, but i128's own arithmetic calls it an overflow; left open
                    None => Err(ErrExp { wide: true, ..err(cls::RANGE | cls::DIV_ZERO, cell) }),
                }
            }
        }
        ("add", Value::Float(x), Value::Float(y)) => Ok(Value::Float(x + y)),
        ("sub", Value::Float(x), Value::Float(y)) => Ok(Value::Float(x - y)),
        ("mult", Value::Float(x), Value::Float(y)) => Ok(Value::Float(x * y)),
        ("div", Value::Float(x), Value::Float(y)) => Ok(Value::Float(x / y)),
        ("rem", Value::Float(x), Value::Float(y)) => Ok(Value::Float(x % y)),

        ("add", Value::Decimal(x), Value::Decimal(y)) => x.checked_add(*y).map(Value::Decimal).ok_or_else(range),
        ("sub", Value::Decimal(x), Value::Decimal(y)) => x.checked_sub(*y).map(Value::Decimal).ok_or_else(range),
        ("mult", Value::Decimal(x), Value::Decimal(y)) => x.checked_mul(*y).map(Value::Decimal).ok_or_else(range),
        ("div", Value::Decimal(x), Value::Decimal(y)) => {
            if y.is_zero() {
                Err(err(cls::DIV_ZERO, cell))
            } else {
                x.checked_div(*y).map(Value::Decimal).ok_or_else(|| range_err(cls::RANGE | cls::DIV_ZERO, cell))
            }
        }
        ("rem", Value::Decimal(x), Value::Decimal(y)) => {
            if y.is_zero() {
                Err(err(cls::DIV_ZERO, cell))
            } else {
                x.checked_rem(*y).map(Value::Decimal).ok_or_else(|| ErrExp { wide: true, ..err(cls::RANGE | cls::DIV_ZERO, cell) })
            }
        }

        ("add", Value::DateTime(x), Value::Duration(y)) => x.checked_add_signed(*y).map(Value::DateTime).ok_or_else(range),
        ("sub", Value::DateTime(x), Value::Duration(y)) => x.checked_sub_signed(*y).map(Value::DateTime).ok_or_else(range),
        ("sub", Value::DateTime(x), Value::DateTime(y)) => datetime_diff(x, y).map(Value::Duration).ok_or_else(range),
        ("sub", Value::Duration(x), Value::Duration(y)) => x.checked_sub(y).map(Value::Duration).ok_or_else(range),

        ("gt" | "gte" | "lt" | "lte", Value::Int(x), Value::Int(y)) => Ok(cmp_result(op, x.partial_cmp(y))),
        ("gt" | "gte" | "lt" | "lte", Value::Float(x), Value::Float(y)) => Ok(cmp_result(op, x.partial_cmp(y))),
        ("gt" | "gte" | "lt" | "lte", Value::Decimal(x), Value::Decimal(y)) => Ok(cmp_result(op, x.partial_cmp(y))),
        ("gt" | "gte" | "lt" | "lte", Value::DateTime(x), Value::DateTime(y)) => Ok(cmp_result(op, x.partial_cmp(y))),
        ("gt" | "gte" | "lt" | "lte", Value::Duration(x), Value::Duration(y)) => Ok(cmp_result(op, x.partial_cmp(y))),

        ("bitand", Value::Int(x), Value::Int(y)) => Ok(Value::Int(x & y)),
        ("bitor", Value::Int(x), Value::Int(y)) => Ok(Value::Int(x | y)),
        ("bitxor", Value::Int(x), Value::Int(y)) => Ok(Value::Int(x ^ y)),
        ("bitand", Value::Bool(x), Value::Bool(y)) => Ok(Value::Bool(*x && *y)),
        ("bitor", Value::Bool(x), Value::Bool(y)) => Ok(Value::Bool(*x || *y)),
        ("bitxor", Value::Bool(x), Value::Bool(y)) => Ok(Value::Bool(*x != *y)),

        ("contains", Value::Map(m), Value::String(k)) => Ok(Value::Bool(m.keys().any(|x| x == k))),
        ("contains", Value::Vec(xs), item) => Ok(Value::Bool(xs.iter().any(|x| lang_eq(x, item)))),
        ("contains", Value::String(s), Value::String(t)) => Ok(Value::Bool(s.contains(t.as_str()))),
        ("contains", Value::Int(flags), Value::Int(flag)) => Ok(Value::Bool(flags & flag != 0)),
        _ => Err(type_err(cell)),
    }
}

/// DateTime − DateTime as an exact Duration, None when it does not fit.
fn datetime_diff(x: &DateTime<Utc>, y: &DateTime<Utc>) -> Option<TimeDelta> {
    // An operand that represents a leap second (nanosecond part >= 10^9): the language does not say how long ago a leap
    // second was, and chrono's own rule (one leap second is assumed, counted depending on the time-of-day order of the two
    // operands) is the only definition there is — "the type's own arithmetic". Everything else is computed independently.
    if x.timestamp_subsec_nanos() >= 1_000_000_000 || y.timestamp_subsec_nanos() >= 1_000_000_000 {
        return Some(x.signed_duration_since(*y));
    }
    let secs = x.timestamp() as i128 - y.timestamp() as i128;
    let nanos = x.timestamp_subsec_nanos() as i128 - y.timestamp_subsec_nanos() as i128;
    let total = secs * 1_000_000_000 + nanos;
    // TimeDelta range is ±i64::MAX milliseconds
    let max = i64::MAX as i128 * 1_000_000;
    if total > max || total < -max {
        return None;
    }
    let s = total.div_euclid(1_000_000_000);
    let n = total.rem_euclid(1_000_000_000);
    TimeDelta::new(s as i64, n as u32)
}
