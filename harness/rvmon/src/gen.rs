//! E1 (part): type-directed random expression generator. Trees are built through the public
//! constructors (`Expr::add`, …); the text route re-creates them with the harness printer.

use crate::pools::{ty, Pool, TYPES};
use crate::rng::Rng;
use reval::expr::{Expr, Index};
use reval::value::Value;
use std::collections::BTreeMap;

pub struct GenCfg {
    /// names of identity-like user functions that may be called (empty = no calls)
    pub fns: Vec<&'static str>,
    /// symbols available, with their type
    pub symbols: Vec<(String, &'static str)>,
    /// top-level fields of the input map, with their type
    pub fields: Vec<(String, &'static str)>,
    /// chance (per mille) to ignore the wanted type
    pub chaos: usize,
}

pub struct Gen<'a> {
    pub rng: &'a mut Rng,
    pub pool: &'a Pool,
    pub cfg: &'a GenCfg,
}

pub fn std_facts(pool: &Pool, rng: &mut Rng) -> (Value, Vec<(String, &'static str)>) {
    let mut m = BTreeMap::new();
    let mut fields = vec![];
    for t in TYPES {
        for k in 0..2 {
            let idx = pool.of(t);
            let v = pool.all[idx[rng.below(idx.len())]].clone();
            let name = format!("{}_{k}", t.to_lowercase());
            // "int_0" etc. are plain identifiers ("none_0" too)
            fields.push((name.clone(), ty(&v)));
            m.insert(name, v);
        }
    }
    (Value::Map(m), fields)
}

const NUM: [&str; 3] = ["Int", "Float", "Decimal"];
const ORD: [&str; 5] = ["Int", "Float", "Decimal", "DateTime", "Duration"];

impl Gen<'_> {
    fn lit(&mut self, t: &str) -> Expr {
        // two literals in five are random values rather than pool boundaries
        if self.rng.chance(2, 5) {
            return Expr::value(crate::pools::random_value(self.rng, t));
        }
        let idx = self.pool.of(t);
        Expr::value(self.pool.all[idx[self.rng.below(idx.len())]].clone())
    }

    fn any_type(&mut self) -> &'static str {
        TYPES[self.rng.below(TYPES.len())]
    }

    pub fn gen(&mut self, want: &str, depth: usize) -> Expr {
        let want: &str = if self.rng.below(1000) < self.cfg.chaos { self.any_type() } else { want };
        if depth == 0 {
            return self.leaf(want);
        }
        let d = depth - 1;
        // generic productions available for every type
        let g = self.rng.below(100);
        if g < 12 {
            return self.leaf(want);
        } else if g < 20 {
            let c = self.gen("Bool", d);
            let a = self.gen(want, d);
            let b = self.gen(want, d);
            return Expr::iif(c, a, b);
        } else if g < 25 {
            // index into a list that holds the wanted value at a known (or unknown) position
            let n = 1 + self.rng.below(3);
            let pos = self.rng.below(n);
            let mut items = vec![];
            for i in 0..n {
                let t = if i == pos { want.to_string() } else { self.any_type().to_string() };
                items.push(self.gen(&t, d.min(1)));
            }
            let at = if self.rng.chance(1, 8) { n + self.rng.below(2) } else { pos };
            return Expr::index(Expr::Vec(items), Index::from(at));
        } else if g < 29 {
            let mut m = BTreeMap::new();
            m.insert("k".to_string(), self.gen(want, d));
            if self.rng.chance(1, 2) {
                let t = self.any_type();
                m.insert("a".to_string(), self.gen(t, d.min(1)));
            }
            let key = if self.rng.chance(1, 8) { "missing" } else { "k" };
            return Expr::index(Expr::Map(m), Index::from(key));
        } else if g < 33 && !self.cfg.fns.is_empty() {
            let f = *self.rng.pick(&self.cfg.fns);
            return Expr::func(f, self.gen(want, d));
        }
        match want {
            "Int" => match self.rng.below(16) {
                0 => Expr::add(self.gen("Int", d), self.gen("Int", d)),
                1 => Expr::sub(self.gen("Int", d), self.gen("Int", d)),
                2 => Expr::mult(self.gen("Int", d), self.gen("Int", d)),
                3 => Expr::div(self.gen("Int", d), self.gen("Int", d)),
                4 => Expr::rem(self.gen("Int", d), self.gen("Int", d)),
                5 => Expr::neg(self.gen("Int", d)),
                6 => Expr::bitwise_and(self.gen("Int", d), self.gen("Int", d)),
                7 => Expr::bitwise_or(self.gen("Int", d), self.gen("Int", d)),
                8 => Expr::bitwise_xor(self.gen("Int", d), self.gen("Int", d)),
                9 | 10 => {
                    let t = *self.rng.pick(&["Int", "Float", "Decimal", "String"]);
                    Expr::int(self.gen(t, d))
                }
                11 | 12 => {
                    let x = self.gen("DateTime", d);
                    match self.rng.below(6) {
                        0 => Expr::year(x),
                        1 => Expr::month(x),
                        2 => Expr::day(x),
                        3 => Expr::hour(x),
                        4 => Expr::minute(x),
                        _ => Expr::second(x),
                    }
                }
                _ => {
                    let x = self.gen("Duration", d);
                    match self.rng.below(5) {
                        0 => Expr::week(x),
                        1 => Expr::day(x),
                        2 => Expr::hour(x),
                        3 => Expr::minute(x),
                        _ => Expr::second(x),
                    }
                }
            },
            "Float" | "Decimal" => {
                let w = want.to_string();
                match self.rng.below(12) {
                    0 => Expr::add(self.gen(&w, d), self.gen(&w, d)),
                    1 => Expr::sub(self.gen(&w, d), self.gen(&w, d)),
                    2 => Expr::mult(self.gen(&w, d), self.gen(&w, d)),
                    3 => Expr::div(self.gen(&w, d), self.gen(&w, d)),
                    4 => Expr::rem(self.gen(&w, d), self.gen(&w, d)),
                    5 => Expr::neg(self.gen(&w, d)),
                    6 => Expr::round(self.gen(&w, d)),
                    7 => Expr::floor(self.gen(&w, d)),
                    8 => Expr::fract(self.gen(&w, d)),
                    _ => {
                        let t = *self.rng.pick(&["Int", "Float", "Decimal", "String"]);
                        let x = self.gen(t, d);
                        if want == "Float" { Expr::float(x) } else { Expr::dec(x) }
                    }
                }
            }
            "Bool" => match self.rng.below(18) {
                0..=3 => {
                    let t = *self.rng.pick(&ORD);
                    let (a, b) = (self.gen(t, d), self.gen(t, d));
                    match self.rng.below(4) {
                        0 => Expr::gt(a, b),
                        1 => Expr::gte(a, b),
                        2 => Expr::lt(a, b),
                        _ => Expr::lte(a, b),
                    }
                }
                4 | 5 => {
                    let t = self.any_type();
                    let u = if self.rng.chance(3, 4) { t } else { self.any_type() };
                    let (a, b) = (self.gen(t, d), self.gen(u, d));
                    if self.rng.chance(1, 2) { Expr::eq(a, b) } else { Expr::neq(a, b) }
                }
                6 => Expr::and(self.gen("Bool", d), self.gen("Bool", d)),
                7 => Expr::or(self.gen("Bool", d), self.gen("Bool", d)),
                8 => Expr::not(self.gen("Bool", d)),
                9 => match self.rng.below(3) {
                    0 => Expr::bitwise_and(self.gen("Bool", d), self.gen("Bool", d)),
                    1 => Expr::bitwise_or(self.gen("Bool", d), self.gen("Bool", d)),
                    _ => Expr::bitwise_xor(self.gen("Bool", d), self.gen("Bool", d)),
                },
                10 | 11 => {
                    let t = self.any_type();
                    Expr::contains(self.gen("Vec", d), self.gen(t, d))
                }
                12 => Expr::contains(self.gen("String", d), self.gen("String", d)),
                13 => Expr::contains(self.gen("Map", d), self.gen("String", d)),
                14 => Expr::contains(self.gen("Int", d), self.gen("Int", d)),
                15 => {
                    let t = self.any_type();
                    Expr::some(self.gen(t, d))
                }
                _ => {
                    let t = self.any_type();
                    Expr::none(self.gen(t, d))
                }
            },
            "String" => match self.rng.below(4) {
                0 => Expr::uppercase(self.gen("String", d)),
                1 => Expr::lowercase(self.gen("String", d)),
                2 => Expr::trim(self.gen("String", d)),
                _ => self.leaf("String"),
            },
            "DateTime" => match self.rng.below(5) {
                0 | 1 => {
                    let t = *self.rng.pick(&["String", "Int", "DateTime"]);
                    Expr::datetime(self.gen(t, d))
                }
                2 => Expr::add(self.gen("DateTime", d), self.gen("Duration", d)),
                3 => Expr::sub(self.gen("DateTime", d), self.gen("Duration", d)),
                _ => self.leaf("DateTime"),
            },
            "Duration" => match self.rng.below(6) {
                0 => {
                    let t = *self.rng.pick(&["Int", "Duration"]);
                    Expr::duration(self.gen(t, d))
                }
                1 | 2 => {
                    let x = self.gen("Int", d);
                    match self.rng.below(5) {
                        0 => Expr::week(x),
                        1 => Expr::day(x),
                        2 => Expr::hour(x),
                        3 => Expr::minute(x),
                        _ => Expr::second(x),
                    }
                }
                3 => Expr::sub(self.gen("DateTime", d), self.gen("DateTime", d)),
                4 => Expr::sub(self.gen("Duration", d), self.gen("Duration", d)),
                _ => self.leaf("Duration"),
            },
            "Vec" => {
                let n = self.rng.below(4);
                let mut items = vec![];
                for _ in 0..n {
                    let t = self.any_type();
                    items.push(self.gen(t, d.min(2)));
                }
                Expr::Vec(items)
            }
            "Map" => {
                let n = self.rng.below(4);
                let mut m = BTreeMap::new();
                for _ in 0..n {
                    let t = self.any_type();
                    let k = *self.rng.pick(&["a", "b", "zed", "k1", "Name"]);
                    m.insert(k.to_string(), self.gen(t, d.min(2)));
                }
                Expr::Map(m)
            }
            _ => {
                // None arising deep: missing field / out-of-range index / propagation
                match self.rng.below(4) {
                    0 => Expr::index(self.gen("Map", d), Index::from("nope")),
                    1 => Expr::index(self.gen("Vec", d), Index::from(17usize)),
                    2 => {
                        let t = *self.rng.pick(&NUM);
                        Expr::add(self.gen("None", d), self.gen(t, d))
                    }
                    _ => self.leaf("None"),
                }
            }
        }
    }

    fn leaf(&mut self, want: &str) -> Expr {
        let r = self.rng.below(10);
        if r < 3 {
            let cands: Vec<&(String, &'static str)> = self.cfg.fields.iter().filter(|(_, t)| *t == want).collect();
            if !cands.is_empty() {
                let (n, _) = cands[self.rng.below(cands.len())];
                return Expr::reff(n);
            }
        } else if r < 4 {
            let cands: Vec<&(String, &'static str)> = self.cfg.symbols.iter().filter(|(_, t)| *t == want).collect();
            if !cands.is_empty() {
                let (n, _) = cands[self.rng.below(cands.len())];
                return Expr::symbol(n);
            }
        } else if r < 5 && want == "Map" {
            return Expr::reff("facts");
        }
        self.lit(want)
    }
}

/// number of nodes
pub fn size(e: &Expr) -> usize {
    let mut n = 0;
    walk(e, &mut |_| n += 1);
    n
}

pub fn kind(e: &Expr) -> &'static str {
    match e {
        Expr::Value(_) => "Value",
        Expr::Reference(_) => "Reference",
        Expr::Symbol(_) => "Symbol",
        Expr::Function(..) => "Function",
        Expr::Index(..) => "Index",
        Expr::If(..) => "If",
        Expr::Map(_) => "Map",
        Expr::Vec(_) => "Vec",
        Expr::Not(_) => "Not",
        Expr::Neg(_) => "Neg",
        Expr::Some(_) => "Some",
        Expr::None(_) => "None",
        Expr::Int(_) => "Int",
        Expr::Float(_) => "Float",
        Expr::Dec(_) => "Dec",
        Expr::DateTime(_) => "DateTime",
        Expr::Duration(_) => "Duration",
        Expr::Mult(..) => "Mult",
        Expr::Div(..) => "Div",
        Expr::Rem(..) => "Rem",
        Expr::Add(..) => "Add",
        Expr::Sub(..) => "Sub",
        Expr::Equals(..) => "Equals",
        Expr::NotEquals(..) => "NotEquals",
        Expr::GreaterThan(..) => "GreaterThan",
        Expr::GreaterThanEquals(..) => "GreaterThanEquals",
        Expr::LessThan(..) => "LessThan",
        Expr::LessThanEquals(..) => "LessThanEquals",
        Expr::And(..) => "And",
        Expr::Or(..) => "Or",
        Expr::BitAnd(..) => "BitAnd",
        Expr::BitOr(..) => "BitOr",
        Expr::BitXor(..) => "BitXor",
        Expr::Contains(..) => "Contains",
        Expr::UpperCase(_) => "UpperCase",
        Expr::LowerCase(_) => "LowerCase",
        Expr::Trim(_) => "Trim",
        Expr::Floor(_) => "Floor",
        Expr::Round(_) => "Round",
        Expr::Fract(_) => "Fract",
        Expr::Year(_) => "Year",
        Expr::Month(_) => "Month",
        Expr::Week(_) => "Week",
        Expr::Day(_) => "Day",
        Expr::Hour(_) => "Hour",
        Expr::Minute(_) => "Minute",
        Expr::Second(_) => "Second",
    }
}

pub const ALL_KINDS: [&str; 47] = [
    "Value", "Reference", "Symbol", "Function", "Index", "If", "Map", "Vec", "Not", "Neg", "Some", "None", "Int", "Float", "Dec", "DateTime", "Duration", "Mult", "Div", "Rem", "Add", "Sub",
    "Equals", "NotEquals", "GreaterThan", "GreaterThanEquals", "LessThan", "LessThanEquals", "And", "Or", "BitAnd", "BitOr", "BitXor", "Contains", "UpperCase", "LowerCase", "Trim", "Floor",
    "Round", "Fract", "Year", "Month", "Week", "Day", "Hour", "Minute", "Second",
];

pub fn children(e: &Expr) -> Vec<&Expr> {
    match e {
        Expr::Value(_) | Expr::Reference(_) | Expr::Symbol(_) => vec![],
        Expr::Function(_, x) | Expr::Index(x, _) => vec![x],
        Expr::If(a, b, c) => vec![a, b, c],
        Expr::Map(m) => m.values().collect(),
        Expr::Vec(v) => v.iter().collect(),
        Expr::Not(x) | Expr::Neg(x) | Expr::Some(x) | Expr::None(x) | Expr::Int(x) | Expr::Float(x) | Expr::Dec(x) | Expr::DateTime(x) | Expr::Duration(x) | Expr::UpperCase(x)
        | Expr::LowerCase(x) | Expr::Trim(x) | Expr::Floor(x) | Expr::Round(x) | Expr::Fract(x) | Expr::Year(x) | Expr::Month(x) | Expr::Week(x) | Expr::Day(x) | Expr::Hour(x)
        | Expr::Minute(x) | Expr::Second(x) => vec![x],
        Expr::Mult(a, b) | Expr::Div(a, b) | Expr::Rem(a, b) | Expr::Add(a, b) | Expr::Sub(a, b) | Expr::Equals(a, b) | Expr::NotEquals(a, b) | Expr::GreaterThan(a, b)
        | Expr::GreaterThanEquals(a, b) | Expr::LessThan(a, b) | Expr::LessThanEquals(a, b) | Expr::And(a, b) | Expr::Or(a, b) | Expr::BitAnd(a, b) | Expr::BitOr(a, b)
        | Expr::BitXor(a, b) | Expr::Contains(a, b) => vec![a, b],
    }
}

pub fn walk<'a>(e: &'a Expr, f: &mut impl FnMut(&'a Expr)) {
    f(e);
    for c in children(e) {
        walk(c, f);
    }
}

/// The 22 one-argument built-ins and 17 binary operators as (name used in cell names, constructor).
pub type UnCtor = fn(Expr) -> Expr;
pub type BinCtor = fn(Expr, Expr) -> Expr;

pub const UNARY: [(&str, UnCtor); 22] = [
    ("not", Expr::not), ("neg", Expr::neg), ("some", Expr::some), ("none", Expr::none), ("int", Expr::int), ("float", Expr::float), ("dec", Expr::dec),
    ("datetime", Expr::datetime), ("duration", Expr::duration), ("uppercase", Expr::uppercase), ("lowercase", Expr::lowercase), ("trim", Expr::trim),
    ("floor", Expr::floor), ("round", Expr::round), ("fract", Expr::fract), ("year", Expr::year), ("month", Expr::month), ("week", Expr::week), ("day", Expr::day),
    ("hour", Expr::hour), ("minute", Expr::minute), ("second", Expr::second),
];

pub const BINARY: [(&str, BinCtor); 17] = [
    ("mult", Expr::mult), ("div", Expr::div), ("rem", Expr::rem), ("add", Expr::add), ("sub", Expr::sub), ("eq", Expr::eq), ("neq", Expr::neq), ("gt", Expr::gt), ("gte", Expr::gte),
    ("lt", Expr::lt), ("lte", Expr::lte), ("and", Expr::and), ("or", Expr::or), ("bitand", Expr::bitwise_and), ("bitor", Expr::bitwise_or), ("bitxor", Expr::bitwise_xor),
    ("contains", Expr::contains),
];
