//! Coverage-guided leg of the parser properties (thorough tier of C06, C07 and C16): the `fuzzparse` binary (libFuzzer,
//! built with LLVM's inline coverage counters over reval and the harness) mutates texts towards new coverage of the generated
//! parser and of Display; every text goes through the three oracles (no panic / agrees with the reference parser / rendering
//! parses back). 16 processes with different seeds over their own corpus copies; a process that stops on a finding is
//! restarted until the time is used up. The same oracles, uninstrumented, are `oracles()` below (used for replay).

use crate::c07::{compare_text, Outcome};
use crate::core::{guard, verif_dir, Violation};
use reval::expr::Expr;
use reval::prelude::Rule;
use reval::value::Value;
use serde_json::json;
use std::collections::BTreeMap;
use std::path::PathBuf;
use std::process::{Command, Stdio};
use std::time::{Duration, Instant};

pub struct FuzzOut {
    pub execs: u64,
    pub new_units: u64,
    pub processes: u64,
    pub secs: u64,
    /// findings that belong to the property asked for
    pub violations: Vec<Violation>,
    /// findings that belong to one of the other two parser properties (their own checks report them)
    pub other: BTreeMap<String, u64>,
    pub inconclusive: Vec<String>,
}

fn harness_dir() -> PathBuf {
    verif_dir().join("harness")
}

fn target_base() -> PathBuf {
    std::env::var("CARGO_TARGET_DIR").map(PathBuf::from).unwrap_or_else(|_| harness_dir().join("target"))
}

fn has_infinite_float(e: &Expr) -> bool {
    if let Expr::Value(Value::Float(f)) = e {
        return !f.is_finite();
    }
    crate::gen::children(e).into_iter().any(has_infinite_float)
}

/// The three oracles on one text: (property, class) of the first one that fails.
pub fn oracles(text: &str) -> Option<(&'static str, String)> {
    if let Err(p) = guard(|| Rule::parse(text).map(|_| ())) {
        return Some(("C06", format!("panic Rule::parse {}", normalise(&p))));
    }
    let accepted = match compare_text(text) {
        Outcome::Mismatch { class, detail } if class.starts_with("parser-panicked") => return Some(("C06", format!("panic Expr::parse {}", normalise(&detail)))),
        Outcome::Mismatch { class, .. } => return Some(("C07", class)),
        Outcome::Agree { accepted } | Outcome::AgreeAmbiguous { accepted, .. } => accepted,
        Outcome::Open => false,
    };
    if accepted {
        if let Ok(Ok(tree)) = guard(|| Expr::parse(text)) {
            // the infinity literal is the listed open finding of C16
            if !has_infinite_float(&tree) {
                return match guard(|| Expr::parse(&tree.to_string())) {
                    Ok(Ok(back)) if back == tree => None,
                    Ok(Ok(_)) => Some(("C16", "reparsed-to-different-tree".into())),
                    Ok(Err(_)) => Some(("C16", "rendering-does-not-parse".into())),
                    Err(_) => Some(("C16", "display-or-reparse-panicked".into())),
                };
            }
        }
    }
    None
}

/// panic message without its payload: up to the first quote / colon, digits replaced
pub fn normalise(p: &str) -> String {
    let msg = p.rsplit_once(" @ ").map(|x| x.0).unwrap_or(p);
    let class: String = msg.split([':', ';', '`', '"', '\'']).next().unwrap_or(msg).chars().map(|c| if c.is_ascii_digit() { '#' } else { c }).collect();
    let class = class.replace("##", "#").replace("##", "#").replace("##", "#");
    class.chars().take(80).collect()
}

fn seeds() -> Vec<String> {
    let mut v: Vec<String> = vec![
        "a + b * i2 - c / d5.5 % f1e3", "if x then \"y\\n\" else none", "f(a).b.0 contains :s", "[i1, f1e5, 0xff, 0o7, 0b1].0", "\"\\u{41}\\t\\\\\" in {k: !true, j: -i1}",
        "a and b or c == d != e > f(g) < h >= i <= j", "a & b | c ^ d", "is_some(a) and is_none(b) or some(c) == none(d)", "int(\"5\") + float(i1) + dec(f1.5)", "date_time(\"2020-01-01T00:00:00Z\") - duration(\"P1D\")",
        "to_upper(a) == uppercase(b) and to_lower(c) == lowercase(trim(d))", "round(f1.5) + floor(d2.5) + fract(f0.25)", "year(d) + month(d) + week(d) + day(d) + hour(d) + minute(d) + second(d)",
        "x in [i1, i2] and y contains \"s\"", "(a.b).c.0.d", "{a: {b: [i1, {c: none}]}}.a.b.1.c", "i-5 - -i5", "!(a == b)", "// c\na // t\n+ b", "true and false or none == none", "i170141183460469231731687303715884105727", "d0.0000000000000000000000000001",
    ]
    .into_iter()
    .map(String::from)
    .collect();
    for r in ["// name\ni1", "// name\n// description\n@k: i1;\n@tags: [\"a\", {b: d2.5}];\na + b", "@name: \"n\";\n@description: \"d\";\nx", "// n\n\"multi\n// line\"", "// n\r\n@k: none;\r\ni1 // t\r\n"] {
        v.push(r.to_string());
    }
    v
}

/// The input all evaluation texts are evaluated on: one field of every type under short names (the dictionary has them)
pub fn eval_facts() -> Value {
    use chrono::TimeZone;
    let m = |kv: Vec<(&str, Value)>| Value::Map(kv.into_iter().map(|(k, v)| (k.to_string(), v)).collect());
    m(vec![
        ("a", Value::Int(1)), ("b", Value::Int(-7)), ("big", Value::Int(i128::MAX)), ("small", Value::Int(i128::MIN)), ("x", Value::Float(1.5)), ("y", Value::Float(-0.0)), ("nan", Value::Float(f64::NAN)),
        ("p", Value::Decimal(rust_decimal::Decimal::new(25, 1))), ("q", Value::Decimal(rust_decimal::Decimal::MAX)), ("s", Value::String("Straße Σ".into())), ("e", Value::String(String::new())), ("num", Value::String("42".into())),
        ("t", Value::Bool(true)), ("u", Value::Bool(false)), ("n", Value::None), ("when", Value::DateTime(chrono::Utc.with_ymd_and_hms(2024, 2, 29, 23, 59, 59).unwrap())), ("span", Value::Duration(chrono::TimeDelta::seconds(90_061))),
        ("l", Value::Vec(vec![Value::Int(1), Value::String("a".into()), Value::None, Value::Vec(vec![])])), ("m", m(vec![("k", Value::Int(1)), ("a", Value::None), ("deep", m(vec![("l", Value::Vec(vec![Value::Int(9)]))]))])),
    ])
}

/// The evaluation oracles on one text: parse it (rejected texts are not this leg's business), evaluate it with reval and with the
/// reference evaluator on `eval_facts()`: a panic or a silently out-of-range result belongs to C01, any other disagreement to C02.
pub fn oracles_eval(text: &str) -> Option<(&'static str, String)> {
    let e = match guard(|| Expr::parse(text)) {
        Ok(Ok(e)) => e,
        _ => return None,
    };
    let facts = eval_facts();
    let (exp, wide) = crate::evalcommon::eval_ref(&e, &facts);
    let obs = crate::evalcommon::eval_real(&e, &facts);
    if let crate::refeval::Obs::Panic(p) = &obs {
        return Some(("C01", format!("panic {}", normalise(p))));
    }
    if wide {
        return None;
    }
    let mis = crate::refeval::compare(&exp, &obs)?;
    // name the smallest failing sub-expression
    let (cell, mis) = match crate::evalcommon::localize(&e, &facts) {
        Some((sub, m)) => (crate::evalcommon::node_cell(sub, &facts), m),
        None => (format!("{}(composition)", crate::gen::kind(&e)), mis),
    };
    let silent = matches!((&exp, &obs), (Err(x), crate::refeval::Obs::Val(_)) if x.range);
    Some(if silent { ("C01", format!("silent-out-of-range {cell}")) } else { ("C02", format!("{mis} {cell}")) })
}

fn seeds_eval() -> Vec<String> {
    [
        "a + b * i2 - big / b % i3", "x * f2.5 / y + nan", "p + q - d0.1 * p / d3 % d7", "if t then s else e", "t and u or n == n", "a > b and x >= y or p < q", "a & b | i12 ^ i5", "s contains \"ß\" and l contains n and \"k\" in m",
        "int(num) + int(x) + int(p) + int(t)", "float(a) + float(num) + float(p)", "dec(a) + dec(x) + dec(num)", "uppercase(s) == lowercase(s) or trim(e) == e", "round(x) + floor(x) + fract(x)", "round(p) + floor(p) + fract(p)",
        "year(when) + month(when) + week(when) + day(when) + hour(when) + minute(when) + second(when)", "when + span - span", "when - when", "span + span - span", "datetime(\"2020-01-01T00:00:00Z\") < when", "duration(i60) + span", "datetime(i0)", "duration(\"P1DT1H\")",
        "l.0 + l.3.0", "m.deep.l.0", "m.a == none", "facts.m.k", "[a, b, x].1", "{k: a}.k", "is_some(n) or is_none(a)", "-a + -x + -p", "!t", "big + a", "small - a", "-small", "big * i2", "a / i0", "a % i0", "x / f0", "p / d0", "week(i99999999999999)",
    ]
    .into_iter()
    .map(String::from)
    .collect()
}

pub struct Target {
    pub bin: &'static str,
    pub oracles: fn(&str) -> Option<(&'static str, String)>,
    pub seeds: fn() -> Vec<String>,
    pub what: &'static str,
}

pub const PARSE: Target = Target { bin: "fuzzparse", oracles, seeds, what: "no panic in Expr::parse / Rule::parse (C06); accept/reject and tree equal to the reference parser (C07); rendering of an accepted tree parses back to it (C16)" };
pub const EVAL: Target = Target { bin: "fuzzeval", oracles: oracles_eval, seeds: seeds_eval, what: "accepted texts are evaluated on a fixed input holding a field of every type, by reval and by the reference evaluator: a panic or a silently out-of-range result (C01), any other disagreement in value / error variant / payload (C02)" };

pub fn run(prop: &str, secs: u64, seed: u64) -> FuzzOut {
    run_target(if prop == "C01" || prop == "C02" { &EVAL } else { &PARSE }, prop, secs, seed)
}

pub fn run_target(target: &Target, prop: &str, secs: u64, seed: u64) -> FuzzOut {
    crate::core::install_panic_hook();
    let mut out = FuzzOut { execs: 0, new_units: 0, processes: 0, secs, violations: vec![], other: BTreeMap::new(), inconclusive: vec![] };
    // build
    let tdir = target_base().join("fuzz");
    let mut c = Command::new("cargo");
    c.arg("+nightly").current_dir(harness_dir().join("fuzzparse")).env("CARGO_NET_OFFLINE", "true");
    c.args(["build", "--offline", "--quiet", "--release", "--target", "x86_64-unknown-linux-gnu"]);
    if let Ok(repo) = std::env::var("VERIF_REPO") {
        c.arg("--config").arg(format!("paths=[\"{repo}\"]"));
    }
    c.env("CARGO_TARGET_DIR", &tdir);
    c.env("RUSTFLAGS", "-Cpasses=sancov-module -Cllvm-args=-sanitizer-coverage-level=4 -Cllvm-args=-sanitizer-coverage-inline-8bit-counters -Cllvm-args=-sanitizer-coverage-pc-table -Cllvm-args=-sanitizer-coverage-trace-compares --cfg fuzzing -Clink-dead-code -Ccodegen-units=1");
    match c.output() {
        Ok(o) if o.status.success() => {}
        Ok(o) => {
            out.inconclusive.push(format!("the coverage-guided leg does not build: {}", String::from_utf8_lossy(&o.stderr).lines().last().unwrap_or("")));
            return out;
        }
        Err(e) => {
            out.inconclusive.push(format!("cannot run cargo +nightly: {e}"));
            return out;
        }
    }
    let bin = tdir.join("x86_64-unknown-linux-gnu/release").join(target.bin);
    let work = target_base().join("fuzz-work").join(prop);
    let _ = std::fs::remove_dir_all(&work);
    // token dictionary: keywords, operators, literal prefixes and the pieces of escapes
    std::fs::create_dir_all(&work).ok();
    let dict = work.join("tokens.dict");
    {
        let mut d = String::new();
        for t in crate::print::KEYWORDS.iter().copied().chain(["==", "!=", ">=", "<=", "//", "\\u{", "\\u{41}", "}", "{", "\\\\", "\\\"", "\\n", "0x", "0o", "0b", "i1", "f1.5", "d2.5", "f1e5", ":s", ".0", ".a", "@k:", ";", ", ", "[", "]", "(", ")", "\"", "facts", "\n", "\r\n", "i1, ", "a, a, a, a, a, a, a, a, ", "big", "small", "nan", "when", "span", "num", " + ", " - ", " * ", " / ", " % ", "i0", "f0", "d0", "i170141183460469231731687303715884105727", "i-170141183460469231731687303715884105728", "d79228162514264337593543950335", "f1e308", "f5e-324", "i9223372036854775807", "i2147483648"]) {
            d.push_str(&format!("\"{}\"\n", t.replace('\\', "\\\\").replace('"', "\\\"").replace('\n', "\\x0a").replace('\r', "\\x0d")));
        }
        std::fs::write(&dict, d).ok();
    }
    let nproc = 16u64;
    let results: std::sync::Mutex<Vec<(u64, u64, Vec<(String, String, String)>, Vec<String>, u64)>> = std::sync::Mutex::new(vec![]);
    std::thread::scope(|sc| {
        for i in 0..nproc {
            let (bin, work, results, dict) = (&bin, &work, &results, &dict);
            sc.spawn(move || {
                let corpus = work.join(format!("corpus{i}"));
                let art = work.join(format!("art{i}"));
                std::fs::create_dir_all(&corpus).ok();
                std::fs::create_dir_all(&art).ok();
                for (k, s) in (target.seeds)().iter().enumerate() {
                    std::fs::write(corpus.join(format!("seed{k:03}")), s).ok();
                }
                let t0 = Instant::now();
                let (mut execs, mut units, mut runs) = (0u64, 0u64, 0u64);
                let mut found: Vec<(String, String, String)> = vec![];
                let mut notes: Vec<String> = vec![];
                while t0.elapsed() < Duration::from_secs(secs) && runs < 40 {
                    let left = secs.saturating_sub(t0.elapsed().as_secs()).max(5);
                    runs += 1;
                    let o = Command::new(bin)
                        .arg(&corpus)
                        .arg(format!("-max_total_time={left}"))
                        .args(["-max_len=300", "-timeout=10", "-rss_limit_mb=3000", "-print_final_stats=1"])
                        .arg(format!("-seed={}", seed * 1000 + i * 41 + runs))
                        .arg(format!("-artifact_prefix={}/", art.display()))
                        .arg(format!("-dict={}", dict.display()))
                        .stdin(Stdio::null())
                        .stdout(Stdio::null())
                        .output();
                    let Ok(o) = o else {
                        notes.push("cannot start the fuzz binary".into());
                        break;
                    };
                    let err = String::from_utf8_lossy(&o.stderr);
                    for l in err.lines() {
                        if let Some(v) = l.strip_prefix("stat::number_of_executed_units:") {
                            execs += v.trim().parse::<u64>().unwrap_or(0);
                        }
                        if let Some(v) = l.strip_prefix("stat::new_units_added:") {
                            units += v.trim().parse::<u64>().unwrap_or(0);
                        }
                    }
                    if o.status.success() {
                        continue;
                    }
                    let viol = err.lines().find_map(|l| l.strip_prefix("FUZZ-VIOLATION ")).map(|s| s.to_string());
                    let text = err.lines().find_map(|l| l.strip_prefix("FUZZ-TEXT ")).unwrap_or("").to_string();
                    match viol {
                        Some(v) => {
                            let (p, class) = v.split_once(' ').unwrap_or((v.as_str(), ""));
                            found.push((p.to_string(), class.to_string(), text));
                        }
                        None => {
                            // libfuzzer-sys aborts on every panic (its panic hook runs before catch_unwind can), so a panic inside reval shows
                            // as a deadly signal: take the artifact through the same oracles in this process, where panics are caught
                            let newest = std::fs::read_dir(&art).ok().and_then(|d| d.filter_map(|e| e.ok()).max_by_key(|e| e.metadata().and_then(|m| m.modified()).ok()));
                            if let Some(text) = newest.and_then(|e| std::fs::read(e.path()).ok()).and_then(|b| String::from_utf8(b).ok()) {
                                match guard(|| (target.oracles)(&text)) {
                                    Ok(Some((p, class))) => {
                                        found.push((p.to_string(), class, format!("{text:?}")));
                                        let _ = std::fs::remove_dir_all(&art);
                                        std::fs::create_dir_all(&art).ok();
                                        continue;
                                    }
                                    Ok(None) => notes.push(format!("fuzz process {i} stopped on {text:?}, which passes the oracles when run alone")),
                                    Err(p) => notes.push(format!("fuzz process {i}: the harness itself panicked on {text:?}: {p}")),
                                }
                                if notes.len() > 3 {
                                    break;
                                }
                                continue;
                            }
                            let why = err.lines().find(|l| l.contains("ERROR: libFuzzer")).unwrap_or("stopped without a report").to_string();
                            notes.push(format!("fuzz process {i} stopped: {why}"));
                            if notes.len() > 3 {
                                break;
                            }
                        }
                    }
                }
                results.lock().unwrap().push((execs, units, found, notes, runs));
            });
        }
    });
    let mut by_sig: BTreeMap<String, Violation> = BTreeMap::new();
    for (execs, units, found, notes, runs) in results.into_inner().unwrap() {
        out.execs += execs;
        out.new_units += units;
        out.processes += runs;
        for n in notes {
            if out.inconclusive.len() < 4 {
                out.inconclusive.push(n);
            }
        }
        for (p, class, text) in found {
            if p == prop {
                let class = if p == "C06" { normalise(&class) } else { class };
                let text = if target.bin == "fuzzeval" { format!("EVAL {text}") } else { text };
                let sig = format!("{prop} fuzz {class}");
                by_sig.entry(sig.clone()).and_modify(|v| v.count += 1).or_insert(Violation { sig, what: format!("found by the coverage-guided leg: {class}"), case: json!({"text_debug": text, "fuzz": true}), count: 1 });
            } else {
                *out.other.entry(p).or_default() += 1;
            }
        }
    }
    out.violations = by_sig.into_values().collect();
    let _ = std::fs::remove_dir_all(&work);
    out
}

/// Run the leg for `prop` and put its findings, counters and problems into the property's Finish.
pub fn attach(f: &mut crate::core::Finish, prop: &str, secs: u64) {
    let target = if prop == "C01" || prop == "C02" { &EVAL } else { &PARSE };
    let fz = run_target(target, prop, secs, crate::core::seed_from_env());
    f.extras.insert(
        "coverage_guided_leg".into(),
        json!({"engine": format!("libFuzzer (libfuzzer-sys 0.4) over {}, 16 processes", target.bin), "seconds_per_process": fz.secs, "executions": fz.execs, "corpus_units_added": fz.new_units, "process_runs": fz.processes,
               "findings_for_this_property": fz.violations.len(), "findings_for_the_other_properties_of_this_leg": fz.other, "oracles": target.what}),
    );
    f.floors.push(crate::core::floor(format!("coverage-guided leg executions: {}", fz.execs), fz.execs >= 200_000 || !fz.violations.is_empty()));
    for n in &fz.inconclusive {
        f.floors.push(crate::core::floor(format!("coverage-guided leg: {n}"), false));
    }
    f.violations.extend(fz.violations);
}

/// Debug-formatted Rust string literal (as printed by `{:?}`) back to the string.
pub fn undebug(s: &str) -> String {
    let inner = s.trim().strip_prefix('"').and_then(|x| x.strip_suffix('"')).unwrap_or(s);
    let mut out = String::new();
    let mut cs = inner.chars().peekable();
    while let Some(c) = cs.next() {
        if c != '\\' {
            out.push(c);
            continue;
        }
        match cs.next() {
            Some('n') => out.push('\n'),
            Some('r') => out.push('\r'),
            Some('t') => out.push('\t'),
            Some('0') => out.push('\0'),
            Some('\\') => out.push('\\'),
            Some('"') => out.push('"'),
            Some('\'') => out.push('\''),
            Some('u') => {
                let mut hex = String::new();
                if cs.peek() == Some(&'{') {
                    cs.next();
                    for h in cs.by_ref() {
                        if h == '}' {
                            break;
                        }
                        hex.push(h);
                    }
                }
                if let Some(ch) = u32::from_str_radix(&hex, 16).ok().and_then(char::from_u32) {
                    out.push(ch);
                }
            }
            Some(other) => out.push(other),
            None => {}
        }
    }
    out
}
