//! C04 — None operands propagate through operators instead of failing (the statement's rule table,
//! verbatim), whatever the other operand is; plus None arising deep inside random trees.

use crate::core::{floor, Ctx, Finish, Merged, Property, Tier};
use crate::evalcommon::*;
use crate::gen::{children, kind, std_facts, Gen, GenCfg, BINARY, UNARY};
use crate::pools::{pool, ty};
use crate::refeval::{compare, same, Obs};
use crate::rng::fnv;
use reval::expr::{Expr, Index};
use reval::value::Value;
use serde_json::json;
use std::collections::BTreeMap;

pub const PROP: Property = Property { id: "C04", run, finish, shards: |_| 16, expect_s: |t| t.of(15, 150) };

#[derive(Clone, Debug)]
enum Want {
    Val(Value),
    TypeError,
}

fn check(ctx: &mut Ctx, e: &Expr, want: &Want, rule: &str, cell: &str) {
    let none = Value::None;
    ctx.begin(|| format!("{rule} {cell}\t{}", show_expr(e)));
    ctx.count();
    ctx.nontrivial(fnv(format!("{e:?}").as_bytes()));
    ctx.hit(&format!("rule:{rule}"));
    ctx.hit(&format!("cell:{cell}"));
    let obs = eval_real(e, &none);
    let ok = match (want, &obs) {
        (Want::Val(w), Obs::Val(v)) => same(w, v),
        (Want::TypeError, Obs::Err { cls, .. }) => *cls == crate::refeval::cls::INVALID_TYPE,
        _ => false,
    };
    if ok {
        ctx.sample(rule, || json!({"expr": show_expr(e), "observed": show_obs(&obs)}));
    } else {
        let got = match &obs {
            Obs::Val(_) => "wrong-value",
            Obs::Err { .. } => "error",
            Obs::Panic(_) => "panic",
        };
        ctx.violation(
            format!("C04 {rule} {got} {cell}"),
            format!("rule '{rule}' expects {want:?}, observed {}", show_obs(&obs)),
            json!({"expr": show_expr(e), "expr_debug": clip(format!("{e:?}"), 800), "observed": show_obs(&obs), "expected": format!("{want:?}")}),
        );
    }
}

fn lit(v: &Value) -> Expr {
    Expr::value(v.clone())
}

/// three ways for a None to arise
fn nones() -> Vec<(&'static str, Expr)> {
    let mut m = BTreeMap::new();
    m.insert("a".to_string(), Expr::value(1));
    vec![
        ("literal", Expr::none_value()),
        ("missing-field", Expr::index(Expr::Map(m), Index::from("missing"))),
        ("index-out-of-range", Expr::index(Expr::Vec(vec![Expr::value(1)]), Index::from(3usize))),
    ]
}

fn table(ctx: &mut Ctx) {
    let pool = pool();
    let vnone = Want::Val(Value::None);
    let vfalse = Want::Val(Value::Bool(false));
    let vtrue = Want::Val(Value::Bool(true));
    for (src, n) in nones() {
        // unary: arithmetic negation, logical not, casts, string, rounding and date/time functions
        for (name, ctor) in UNARY.iter() {
            if !ctx.mine() {
                continue;
            }
            let e = ctor(n.clone());
            match *name {
                "some" => check(ctx, &e, &vfalse, "is_some-of-none", &format!("some(None:{src})")),
                "none" => check(ctx, &e, &vtrue, "is_none-of-none", &format!("none(None:{src})")),
                _ => check(ctx, &e, &vnone, "unary-propagates", &format!("{name}(None:{src})")),
            }
        }
        // binary: None in each operand position x the whole pool in the other
        for (name, ctor) in BINARY.iter() {
            for v in &pool.all {
                if !ctx.mine() {
                    continue;
                }
                let t = ty(v);
                let left = ctor(n.clone(), lit(v)); // None op v
                let right = ctor(lit(v), n.clone()); // v op None
                let cl = format!("{name}(None:{src},{t})");
                let cr = format!("{name}({t},None:{src})");
                match *name {
                    "add" | "sub" | "mult" | "div" | "rem" | "bitand" | "bitor" | "bitxor" => {
                        check(ctx, &left, &vnone, "arith-bitwise-propagates", &cl);
                        check(ctx, &right, &vnone, "arith-bitwise-propagates", &cr);
                    }
                    "gt" | "gte" | "lt" | "lte" => {
                        check(ctx, &left, &vfalse, "ordering-false", &cl);
                        check(ctx, &right, &vfalse, "ordering-false", &cr);
                    }
                    "eq" => {
                        check(ctx, &left, &vfalse, "equality-false", &cl);
                        check(ctx, &right, &vfalse, "equality-false", &cr);
                    }
                    "neq" => {
                        check(ctx, &left, &vtrue, "inequality-true", &cl);
                        check(ctx, &right, &vtrue, "inequality-true", &cr);
                    }
                    "contains" => {
                        // membership in a None collection is false whatever the item
                        check(ctx, &left, &vfalse, "contains-in-none-false", &cl);
                        // a None *item* follows the ordinary rule of the collection's type
                        let want = match v {
                            Value::Vec(xs) => Want::Val(Value::Bool(xs.iter().any(|x| matches!(x, Value::None)))),
                            Value::None => vfalse.clone(),
                            _ => Want::TypeError, // Map wants a String key, String a String, Int an Int, others nothing
                        };
                        check(ctx, &right, &want, "contains-none-item-ordinary-rule", &cr);
                    }
                    "and" | "or" => {
                        // conditions reject None with a type error
                        check(ctx, &left, &Want::TypeError, "logical-condition-rejects-none", &cl);
                        let want = match (v, *name) {
                            (Value::Bool(false), "and") => vfalse.clone(), // left decides, right never looked at
                            (Value::Bool(true), "or") => vtrue.clone(),
                            _ => Want::TypeError,
                        };
                        check(ctx, &right, &want, "logical-condition-rejects-none", &cr);
                    }
                    _ => unreachable!(),
                }
            }
        }
        // None against None for every binary operator
        for (name, ctor) in BINARY.iter() {
            if !ctx.mine() {
                continue;
            }
            let e = ctor(n.clone(), Expr::none_value());
            let cell = format!("{name}(None:{src},None)");
            let want = match *name {
                "eq" | "gt" | "gte" | "lt" | "lte" | "contains" => vfalse.clone(),
                "neq" => vtrue.clone(),
                "and" | "or" => Want::TypeError,
                _ => vnone.clone(),
            };
            check(ctx, &e, &want, "none-against-none", &cell);
        }
        // indexing into None, condition of if
        if ctx.mine() {
            check(ctx, &Expr::index(n.clone(), Index::from("x")), &vnone, "index-into-none", &format!("field(None:{src})"));
            check(ctx, &Expr::index(n.clone(), Index::from(0usize)), &vnone, "index-into-none", &format!("index(None:{src})"));
            check(ctx, &Expr::index(Expr::index(n.clone(), Index::from(0usize)), Index::from("y")), &vnone, "index-into-none", &format!("index.field(None:{src})"));
            check(ctx, &Expr::iif(n.clone(), Expr::value(1), Expr::value(2)), &Want::TypeError, "if-condition-rejects-none", &format!("if(None:{src})"));
        }
    }
}

/// Replace one randomly chosen leaf of `e` by a None-producing expression.
fn plant_none(e: &Expr, target: usize, counter: &mut usize, none_expr: &Expr) -> Expr {
    let is_leaf = children(e).is_empty();
    if is_leaf {
        let me = *counter;
        *counter += 1;
        return if me == target { none_expr.clone() } else { e.clone() };
    }
    let mut go = |x: &Expr| Box::new(plant_none(x, target, counter, none_expr));
    match e {
        Expr::Function(n, x) => Expr::Function(n.clone(), go(x)),
        Expr::Index(x, i) => Expr::Index(go(x), i.clone()),
        Expr::If(a, b, c) => {
            let a = go(a);
            let b = go(b);
            let c = go(c);
            Expr::If(a, b, c)
        }
        Expr::Map(m) => Expr::Map(m.iter().map(|(k, v)| (k.clone(), *go(v))).collect()),
        Expr::Vec(v) => Expr::Vec(v.iter().map(|x| *go(x)).collect()),
        _ => {
            let cs: Vec<Expr> = children(e).into_iter().map(|c| *go(c)).collect();
            rebuild(e, cs)
        }
    }
}

fn rebuild(e: &Expr, mut cs: Vec<Expr>) -> Expr {
    let k = kind(e);
    if cs.len() == 1 {
        let x = cs.pop().unwrap();
        for (name, ctor) in UNARY.iter() {
            if unary_kind(name) == k {
                return ctor(x);
            }
        }
        unreachable!("unary kind {k}")
    } else {
        let b = cs.pop().unwrap();
        let a = cs.pop().unwrap();
        for (name, ctor) in BINARY.iter() {
            if binary_kind(name) == k {
                return ctor(a, b);
            }
        }
        unreachable!("binary kind {k}")
    }
}

pub fn unary_kind(name: &str) -> &'static str {
    match name {
        "not" => "Not", "neg" => "Neg", "some" => "Some", "none" => "None", "int" => "Int", "float" => "Float", "dec" => "Dec", "datetime" => "DateTime", "duration" => "Duration",
        "uppercase" => "UpperCase", "lowercase" => "LowerCase", "trim" => "Trim", "floor" => "Floor", "round" => "Round", "fract" => "Fract", "year" => "Year", "month" => "Month",
        "week" => "Week", "day" => "Day", "hour" => "Hour", "minute" => "Minute", "second" => "Second",
        _ => panic!("{name}"),
    }
}

pub fn binary_kind(name: &str) -> &'static str {
    match name {
        "mult" => "Mult", "div" => "Div", "rem" => "Rem", "add" => "Add", "sub" => "Sub", "eq" => "Equals", "neq" => "NotEquals", "gt" => "GreaterThan", "gte" => "GreaterThanEquals",
        "lt" => "LessThan", "lte" => "LessThanEquals", "and" => "And", "or" => "Or", "bitand" => "BitAnd", "bitor" => "BitOr", "bitxor" => "BitXor", "contains" => "Contains",
        _ => panic!("{name}"),
    }
}

fn count_leaves(e: &Expr) -> usize {
    let cs = children(e);
    if cs.is_empty() {
        1
    } else {
        cs.into_iter().map(count_leaves).sum()
    }
}

/// None arising deep inside random trees; the oracle is the reference evaluator, whose None
/// handling is one uniform principle (applied before the type table).
fn deep(ctx: &mut Ctx, per_shard: usize) {
    let pool = pool();
    let mut rng = ctx.rng.clone();
    let sources = nones();
    let mut facts = Value::None;
    let mut cfg = GenCfg { fns: vec![], symbols: vec![], fields: vec![], chaos: 20 };
    for i in 0..per_shard {
        if i % 400 == 0 {
            let (f, fields) = std_facts(&pool, &mut rng);
            facts = f;
            cfg.fields = fields;
        }
        let want = crate::pools::TYPES[rng.below(9)];
        let base = Gen { rng: &mut rng, pool: &pool, cfg: &cfg }.gen(want, 3);
        let leaves = count_leaves(&base);
        let target = rng.below(leaves);
        let (src, ne) = &sources[rng.below(sources.len())];
        let mut counter = 0;
        let e = plant_none(&base, target, &mut counter, ne);
        ctx.begin(|| format!("deep-none\t{}", show_expr(&e)));
        ctx.count();
        let (exp, wide) = eval_ref(&e, &facts);
        if wide {
            continue;
        }
        let obs = eval_real(&e, &facts);
        ctx.hit(&format!("deep:none-from-{src}"));
        // interesting when the None actually reached the root or flipped the outcome
        if matches!(&exp, Ok(Value::None)) {
            ctx.hit("deep:none-reached-root");
            ctx.nontrivial(fnv(format!("{e:?}").as_bytes()));
        } else if matches!(&exp, Ok(_)) {
            ctx.hit("deep:value-at-root");
            ctx.nontrivial(fnv(format!("{e:?}").as_bytes()));
        }
        if let Some(mis) = compare(&exp, &obs) {
            let cell = match localize(&e, &facts) {
                Some((sub, _)) => node_cell(sub, &facts),
                None => kind(&e).to_string(),
            };
            ctx.violation(format!("C04 deep {mis} {cell}"), format!("None arising inside an expression: implementation and None rules disagree ({mis})"), case_json(&e, &facts, &obs, &exp));
        } else {
            ctx.sample("deep", || case_json(&e, &facts, &obs, &exp));
        }
    }
    ctx.rng = rng;
}

/// The same rule table with Nones that do not come from a literal: a user function returning None, a symbol
/// bound to None, the whole input being None, a None field of the input, an if-branch, a None inside a list.
/// (Evaluated through a ruleset; the other operand is one value of every type.)
fn table_other_sources(ctx: &mut Ctx) {
    use crate::fixture::build;
    use crate::instr::{FaultPlan, FnDesc, Kind};
    let descs = vec![FnDesc { name: "n", cacheable: false, kind: Kind::N, suspend: 0 }, FnDesc { name: "cn", cacheable: true, kind: Kind::N, suspend: 0 }];
    let mut symbols = BTreeMap::new();
    symbols.insert("nil".to_string(), Value::None);
    let sources: Vec<(&str, Expr, Value)> = vec![
        ("user-function", Expr::func("n", Expr::value(1)), Value::Int(0)),
        ("cacheable-user-function", Expr::func("cn", Expr::value(1)), Value::Int(0)),
        ("symbol", Expr::symbol("nil"), Value::Int(0)),
        ("whole-input", Expr::reff("facts"), Value::None),
        ("input-field", Expr::reff("missing_value"), Value::Map([("missing_value".to_string(), Value::None)].into_iter().collect())),
        ("if-branch", Expr::iif(Expr::value(true), Expr::none_value(), Expr::value(1)), Value::Int(0)),
        ("list-element", Expr::index(Expr::Vec(vec![Expr::value(1), Expr::none_value()]), Index::from(1usize)), Value::Int(0)),
        ("function-of-none", Expr::func("n", Expr::func("cn", Expr::none_value())), Value::Int(0)),
    ];
    let others = crate::c03::tuples();
    let vnone = Want::Val(Value::None);
    let vfalse = Want::Val(Value::Bool(false));
    let vtrue = Want::Val(Value::Bool(true));
    for (src, n, facts) in &sources {
        let mut rules: Vec<(String, Expr)> = vec![];
        let mut wants: Vec<Want> = vec![];
        for (name, ctor) in UNARY.iter() {
            rules.push((format!("{name}(None:{src})"), ctor(n.clone())));
            wants.push(match *name {
                "some" => vfalse.clone(),
                "none" => vtrue.clone(),
                _ => vnone.clone(),
            });
        }
        for (name, ctor) in BINARY.iter() {
            for (t, vals) in &others {
                let v = &vals[0];
                for (pos, e) in [("left", ctor(n.clone(), lit(v))), ("right", ctor(lit(v), n.clone())), ("both", ctor(n.clone(), n.clone()))] {
                    let want = match (*name, pos) {
                        ("add" | "sub" | "mult" | "div" | "rem" | "bitand" | "bitor" | "bitxor", _) => vnone.clone(),
                        ("gt" | "gte" | "lt" | "lte" | "eq", _) => vfalse.clone(),
                        ("neq", _) => vtrue.clone(),
                        ("contains", "left" | "both") => vfalse.clone(),
                        ("contains", _) => match v {
                            Value::Vec(xs) => Want::Val(Value::Bool(xs.iter().any(|x| matches!(x, Value::None)))),
                            _ => Want::TypeError,
                        },
                        ("and" | "or", "left" | "both") => Want::TypeError,
                        ("and", _) => if matches!(v, Value::Bool(false)) { vfalse.clone() } else { Want::TypeError },
                        ("or", _) => if matches!(v, Value::Bool(true)) { vtrue.clone() } else { Want::TypeError },
                        _ => unreachable!(),
                    };
                    rules.push((format!("{name}({pos}:None:{src},{t})"), e));
                    wants.push(want);
                }
            }
        }
        rules.push((format!("field(None:{src})"), Expr::index(n.clone(), Index::from("x"))));
        wants.push(vnone.clone());
        rules.push((format!("index(None:{src})"), Expr::index(n.clone(), Index::from(0usize))));
        wants.push(vnone.clone());
        rules.push((format!("if(None:{src})"), Expr::iif(n.clone(), Expr::value(1), Expr::value(2))));
        wants.push(Want::TypeError);
        // three-operator chains
        rules.push((format!("chain a + none * b ({src})"), Expr::add(Expr::value(1), Expr::mult(n.clone(), Expr::value(2)))));
        wants.push(vnone.clone());
        rules.push((format!("chain none + (\"x\" * i1) is the type error of the inner operator ({src})"), Expr::add(n.clone(), Expr::mult(Expr::value("x".to_string()), Expr::value(1)))));
        wants.push(Want::TypeError);
        if !ctx.mine() {
            continue;
        }
        let fx = build(&descs, &symbols, &rules, FaultPlan::default());
        match fx.eval(facts, 1) {
            Ok(res) => {
                for (((name, e), want), (_, obs)) in rules.iter().zip(wants.iter()).zip(res.outcomes.iter()) {
                    ctx.count();
                    ctx.hit("rule:none-from-other-sources");
                    ctx.hit(&format!("source:{src}"));
                    ctx.nontrivial(fnv(name.as_bytes()));
                    let ok = match (want, obs) {
                        (Want::Val(w), Obs::Val(v)) => same(w, v),
                        (Want::TypeError, Obs::Err { cls, .. }) => *cls == crate::refeval::cls::INVALID_TYPE,
                        _ => false,
                    };
                    if !ok {
                        ctx.violation(format!("C04 none-from-{src} {}", name.split('(').next().unwrap_or(name)), format!("{name}: expected {want:?}, observed {}", show_obs(obs)), json!({"rule": name, "expr": show_expr(e), "input": format!("{facts:?}")}));
                    }
                }
            }
            Err(p) => ctx.violation("C04 evaluation-failed", p, json!({"source": src})),
        }
    }
}

fn run(ctx: &mut Ctx) {
    table(ctx);
    table_other_sources(ctx);
    deep(ctx, ctx.tier.of(300_000, 3_000_000));
}

fn finish(m: &Merged, tier: Tier) -> Finish {
    let rules = ["unary-propagates", "arith-bitwise-propagates", "ordering-false", "equality-false", "inequality-true", "contains-in-none-false", "contains-none-item-ordinary-rule", "logical-condition-rejects-none", "none-against-none", "index-into-none", "if-condition-rejects-none"];
    let seen = rules.iter().filter(|r| m.c(&format!("rule:{r}")) > 0).count();
    let mut f = Finish {
        rule: "exhaustive: every operator x None (literal / missing field / out-of-range index) in each operand position x the whole 247-value pool in the other position, judged by the statement's rule table written out in c04.rs; plus random depth-3 trees with one leaf replaced by a None source, judged by the reference evaluator. Non-trivial: every table case; deep cases where the root is still a value or became None. Distinct by tree".into(),
        exhaustive: false,
        exhaustive_part: "the rule-table part is a complete enumeration (seed-independent); the deep part is seeded random".into(),
        ..Default::default()
    };
    f.floors.push(floor(format!("rule-table rows exercised ({seen}/{})", rules.len()), seen == rules.len()));
    f.floors.push(floor(format!("cells exercised: {}", m.prefix_count("cell:")), m.prefix_count("cell:") >= 900));
    f.floors.push(floor(format!("deep trees where the None reached the root: {}", m.c("deep:none-reached-root")), m.c("deep:none-reached-root") >= tier.of(100_000, 1_000_000)));
    f.extras.insert("rules".into(), json!(m.prefix_map("rule:")));
    f.extras.insert("cells".into(), json!(m.prefix_count("cell:")));
    f.extras.insert("deep".into(), json!(m.prefix_map("deep:")));
    f.assumptions = vec!["the rule table is the statement of C04 transcribed in c04.rs::table; for the deep part the reference evaluator E2".into()];
    f
}
