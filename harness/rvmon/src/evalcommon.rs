//! Helpers shared by the evaluation monitors (C01–C05, C09–C12).

use crate::core::guard;
use crate::exec::block_on;
use crate::gen::{children, kind};
use crate::print::{to_text, Parens};
use crate::refeval::{compare, observe, Exp, Host, NoHost, Obs, RefEval};
use reval::expr::Expr;
use reval::value::Value;
use serde_json::{json, Value as J};

pub fn eval_real(e: &Expr, facts: &Value) -> Obs {
    observe(guard(|| block_on(e.evaluate(facts))))
}

pub fn eval_ref(e: &Expr, facts: &Value) -> (Exp, bool) {
    let mut h = NoHost;
    eval_ref_host(e, facts, &mut h)
}

pub fn eval_ref_host(e: &Expr, facts: &Value, host: &mut dyn Host) -> (Exp, bool) {
    let mut r = RefEval::new(facts, host);
    let x = r.eval(e);
    (x, r.wide_hit)
}

pub fn clip(s: String, n: usize) -> String {
    if s.len() <= n {
        s
    } else {
        let mut end = n;
        while !s.is_char_boundary(end) {
            end -= 1;
        }
        format!("{}…[{} bytes]", &s[..end], s.len())
    }
}

pub fn show_expr(e: &Expr) -> String {
    match to_text(e, Parens::Minimal) {
        Some(t) => clip(t, 600),
        None => clip(format!("{e:?}"), 600),
    }
}

pub fn show_obs(o: &Obs) -> String {
    match o {
        Obs::Val(v) => clip(format!("Ok({v:?})"), 300),
        Obs::Err { name, text, .. } => clip(format!("Err({name}: {text})"), 300),
        Obs::Panic(p) => clip(format!("PANIC({p})"), 300),
    }
}

pub fn show_exp(x: &Exp) -> String {
    match x {
        Ok(v) => clip(format!("Ok({v:?})"), 300),
        Err(e) => clip(
            format!("Err({}{}{} at {} payload={:?})", crate::refeval::cls::names(e.allowed), if e.range { ", range failure" } else { "" }, if e.wide { ", or any value (cell left open)" } else { "" }, e.cell, e.pay),
            300,
        ),
    }
}

pub fn case_json(e: &Expr, facts: &Value, obs: &Obs, exp: &Exp) -> J {
    json!({
        "expr": show_expr(e),
        "expr_debug": clip(format!("{e:?}"), 1500),
        "input": clip(format!("{facts:?}"), 600),
        "observed": show_obs(obs),
        "expected": show_exp(exp),
    })
}

/// Cell name of a node given the *reference* results of its children: "Add(Int,Int)".
pub fn node_cell(e: &Expr, facts: &Value) -> String {
    let mut parts = vec![];
    for c in children(e) {
        let (x, _) = eval_ref(c, facts);
        parts.push(match x {
            Ok(v) => crate::pools::ty(&v).to_string(),
            Err(_) => "err".to_string(),
        });
    }
    format!("{}({})", kind(e), parts.join(","))
}

/// Find the smallest (deepest, leftmost) sub-expression on which implementation and reference
/// disagree. Returns (subtree, mismatch kind). Only for host-free expressions.
pub fn localize<'a>(e: &'a Expr, facts: &Value) -> Option<(&'a Expr, String)> {
    for c in children(e) {
        if let Some(hit) = localize(c, facts) {
            return Some(hit);
        }
    }
    let (exp, wide) = eval_ref(e, facts);
    if wide {
        return None;
    }
    let obs = eval_real(e, facts);
    compare(&exp, &obs).map(|m| (e, m))
}
