//! C13 — serializing input data into a Value is total and faithful (E6: a generic model of the
//! serde data model with a hand-written Serialize, an independent image function, and serde_json
//! as a second opinion on JSON-representable data).

use crate::core::{floor, guard, Ctx, Finish, Merged, Property, Tier};
use crate::evalcommon::clip;
use crate::refeval::same;
use crate::rng::{fnv, Rng};
use reval::value::ser::ValueSerializer;
use reval::value::Value;
use serde::ser::{SerializeMap, SerializeSeq, SerializeStruct, SerializeStructVariant, SerializeTuple, SerializeTupleStruct, SerializeTupleVariant};
use serde::{Serialize, Serializer};
use serde_json::json;
use std::collections::BTreeMap;

pub const PROP: Property = Property { id: "C13", run, finish, shards: |_| 16, expect_s: |t| t.of(20, 200) };

const NAMES: [&str; 7] = ["Alpha", "beta", "Gamma_3", "δ", "", "a.b", "beta"];
const FIELDS: [&str; 14] = ["a", "b", "field_1", "Name", "ключ", "c", "d", "e", "f", "g", "h", "name", "", "a.b"];

#[derive(Clone, Debug)]
pub enum M {
    Bool(bool),
    I8(i8), I16(i16), I32(i32), I64(i64), I128(i128),
    U8(u8), U16(u16), U32(u32), U64(u64), U128(u128),
    F32(f32), F64(f64),
    Char(char),
    Str(String),
    Bytes(Vec<u8>),
    None,
    Some(Box<M>),
    Unit,
    UnitStruct(&'static str),
    UnitVariant(&'static str, u32, &'static str),
    NewtypeStruct(&'static str, Box<M>),
    NewtypeVariant(&'static str, u32, &'static str, Box<M>),
    Seq(Vec<M>),
    Tuple(Vec<M>),
    TupleStruct(&'static str, Vec<M>),
    TupleVariant(&'static str, u32, &'static str, Vec<M>),
    Map(Vec<(M, M)>),
    Struct(&'static str, Vec<(&'static str, M)>),
    StructVariant(&'static str, u32, &'static str, Vec<(&'static str, M)>),
    /// a sequence / map / string handed over through the Serializer's provided methods collect_seq / collect_map / collect_str
    /// (what `Serialize` impls of iterators, `Display`-serialized types such as chrono's DateTime, … call); the second field picks
    /// the iterator's size_hint: 0 exact, 1 (0, Some(len)), 2 (0, None), 3 (0, Some(usize::MAX)), 4 (len, None)
    CollectSeq(Vec<M>, u8),
    CollectMap(Vec<(M, M)>, u8),
    CollectStr(String),
    /// only as the value of a struct field: the field is skipped (`#[serde(skip_serializing_if = …)]` calls `skip_field`), so it is absent from the image
    Skipped,
    /// a value whose own Serialize implementation fails
    Fail,
    /// a value that picks its representation from `Serializer::is_human_readable` (like IpAddr, Uuid, …):
    /// a string for human-readable formats (JSON is one), a number otherwise
    HumanReadableProbe,
}

pub fn kind(m: &M) -> &'static str {
    match m {
        M::Bool(_) => "bool", M::I8(_) => "i8", M::I16(_) => "i16", M::I32(_) => "i32", M::I64(_) => "i64", M::I128(_) => "i128", M::U8(_) => "u8", M::U16(_) => "u16", M::U32(_) => "u32",
        M::U64(_) => "u64", M::U128(_) => "u128", M::F32(_) => "f32", M::F64(_) => "f64", M::Char(_) => "char", M::Str(_) => "string", M::Bytes(_) => "bytes", M::None | M::Some(_) => "option",
        M::Unit => "unit", M::UnitStruct(_) => "unit_struct", M::UnitVariant(..) => "unit_variant", M::NewtypeStruct(..) => "newtype_struct", M::NewtypeVariant(..) => "newtype_variant",
        M::Seq(_) => "seq", M::Tuple(_) => "tuple", M::TupleStruct(..) => "tuple_struct", M::TupleVariant(..) => "tuple_variant", M::Map(_) => "map", M::Struct(..) => "struct",
        M::StructVariant(..) => "struct_variant", M::Skipped => "skipped-field", M::CollectSeq(..) => "collect_seq", M::CollectMap(..) => "collect_map", M::CollectStr(_) => "collect_str", M::Fail => "failing-serialize", M::HumanReadableProbe => "is_human_readable-probe",
    }
}

thread_local! {
    /// how the model announces the length of its containers: 0 = exactly (like serde_derive), 1..=4 = wrongly (a hand-written
    /// Serialize may do that; the announced length is not data, every element handed over afterwards still is)
    static LIE: std::cell::Cell<u8> = const { std::cell::Cell::new(0) };
}

/// the announced length of a container of `len` elements; never 0 for a non-empty one and never huge (serde_json writes
/// "[]" at once for an announced 0, and a serializer may reserve the announced capacity)
fn ann(len: usize) -> usize {
    match LIE.with(|l| l.get()) {
        0 => len,
        1 => len.min(1),
        2 => len * 2 + 3,
        3 => if len >= 2 { len - 1 } else { len },
        _ => len + 1,
    }
}

impl Serialize for M {
    fn serialize<S: Serializer>(&self, s: S) -> Result<S::Ok, S::Error> {
        match self {
            M::Bool(x) => s.serialize_bool(*x),
            M::I8(x) => s.serialize_i8(*x),
            M::I16(x) => s.serialize_i16(*x),
            M::I32(x) => s.serialize_i32(*x),
            M::I64(x) => s.serialize_i64(*x),
            M::I128(x) => s.serialize_i128(*x),
            M::U8(x) => s.serialize_u8(*x),
            M::U16(x) => s.serialize_u16(*x),
            M::U32(x) => s.serialize_u32(*x),
            M::U64(x) => s.serialize_u64(*x),
            M::U128(x) => s.serialize_u128(*x),
            M::F32(x) => s.serialize_f32(*x),
            M::F64(x) => s.serialize_f64(*x),
            M::Char(x) => s.serialize_char(*x),
            M::Str(x) => s.serialize_str(x),
            M::Bytes(x) => s.serialize_bytes(x),
            M::None => s.serialize_none(),
            M::Some(x) => s.serialize_some(&**x),
            M::Unit => s.serialize_unit(),
            M::UnitStruct(n) => s.serialize_unit_struct(n),
            M::UnitVariant(n, i, v) => s.serialize_unit_variant(n, *i, v),
            M::NewtypeStruct(n, x) => s.serialize_newtype_struct(n, &**x),
            M::NewtypeVariant(n, i, v, x) => s.serialize_newtype_variant(n, *i, v, &**x),
            M::Seq(xs) => {
                let mut q = s.serialize_seq(Some(ann(xs.len())))?;
                for x in xs {
                    q.serialize_element(x)?;
                }
                q.end()
            }
            M::Tuple(xs) => {
                let mut q = s.serialize_tuple(ann(xs.len()))?;
                for x in xs {
                    q.serialize_element(x)?;
                }
                q.end()
            }
            M::TupleStruct(n, xs) => {
                let mut q = s.serialize_tuple_struct(n, ann(xs.len()))?;
                for x in xs {
                    q.serialize_field(x)?;
                }
                q.end()
            }
            M::TupleVariant(n, i, v, xs) => {
                let mut q = s.serialize_tuple_variant(n, *i, v, ann(xs.len()))?;
                for x in xs {
                    q.serialize_field(x)?;
                }
                q.end()
            }
            M::Map(kvs) => {
                let mut q = s.serialize_map(Some(ann(kvs.len())))?;
                for (k, v) in kvs {
                    q.serialize_entry(k, v)?;
                }
                q.end()
            }
            // like serde_derive: the announced length counts the fields that are not skipped
            M::Struct(n, fs) => {
                let mut q = s.serialize_struct(n, ann(fs.iter().filter(|(_, v)| !matches!(v, M::Skipped)).count()))?;
                for (k, v) in fs {
                    match v {
                        M::Skipped => q.skip_field(k)?,
                        _ => q.serialize_field(k, v)?,
                    }
                }
                q.end()
            }
            M::StructVariant(n, i, v, fs) => {
                let mut q = s.serialize_struct_variant(n, *i, v, ann(fs.iter().filter(|(_, v)| !matches!(v, M::Skipped)).count()))?;
                for (k, x) in fs {
                    match x {
                        M::Skipped => q.skip_field(k)?,
                        _ => q.serialize_field(k, x)?,
                    }
                }
                q.end()
            }
            M::Skipped => s.serialize_unit(),
            M::CollectSeq(xs, h) => s.collect_seq(Hinted { it: xs.iter(), hint: hint_of(*h, xs.len()) }),
            M::CollectMap(kvs, h) => s.collect_map(Hinted { it: kvs.iter().map(|(k, v)| (k, v)), hint: hint_of(*h, kvs.len()) }),
            M::CollectStr(x) => s.collect_str(x),
            M::Fail => Err(serde::ser::Error::custom("this value refuses to be serialized")),
            M::HumanReadableProbe => {
                if s.is_human_readable() {
                    s.serialize_str("human readable")
                } else {
                    s.serialize_u8(0)
                }
            }
        }
    }
}

fn hint_of(h: u8, len: usize) -> (usize, Option<usize>) {
    match h {
        0 => (len, Some(len)),
        1 => (0, Some(len)),
        2 => (0, None),
        3 => (0, Some(usize::MAX)),
        _ => (len, None),
    }
}

/// an iterator with a chosen (legal) size_hint
struct Hinted<I> {
    it: I,
    hint: (usize, Option<usize>),
}
impl<I: Iterator> Iterator for Hinted<I> {
    type Item = I::Item;
    fn next(&mut self) -> Option<I::Item> {
        self.it.next()
    }
    fn size_hint(&self) -> (usize, Option<usize>) {
        self.hint
    }
}

/// What the statement prescribes for a model value.
#[derive(Debug)]
pub enum Image {
    Val(Value),
    /// must be an error (failing Serialize, u128 above i128::MAX)
    MustFail,
    /// a map key that is not a string: an error, or (if accepted) whatever serde_json says
    KeyUnsupported,
}

fn one(k: &str, v: Value) -> Value {
    let mut m = BTreeMap::new();
    m.insert(k.to_string(), v);
    Value::Map(m)
}

pub fn image(m: &M) -> Image {
    macro_rules! sub {
        ($x:expr) => {
            match image($x) {
                Image::Val(v) => v,
                other => return other,
            }
        };
    }
    let list = |xs: &Vec<M>| -> Result<Value, Image> {
        let mut out = vec![];
        for x in xs {
            match image(x) {
                Image::Val(v) => out.push(v),
                other => return Err(other),
            }
        }
        Ok(Value::Vec(out))
    };
    let fields = |fs: &Vec<(&'static str, M)>| -> Result<Value, Image> {
        let mut out = BTreeMap::new();
        for (k, x) in fs {
            if let M::Skipped = x {
                continue;
            }
            match image(x) {
                Image::Val(v) => {
                    out.insert(k.to_string(), v);
                }
                other => return Err(other),
            }
        }
        Ok(Value::Map(out))
    };
    Image::Val(match m {
        M::Bool(x) => Value::Bool(*x),
        M::I8(x) => Value::Int(*x as i128),
        M::I16(x) => Value::Int(*x as i128),
        M::I32(x) => Value::Int(*x as i128),
        M::I64(x) => Value::Int(*x as i128),
        M::I128(x) => Value::Int(*x),
        M::U8(x) => Value::Int(*x as i128),
        M::U16(x) => Value::Int(*x as i128),
        M::U32(x) => Value::Int(*x as i128),
        M::U64(x) => Value::Int(*x as i128),
        M::U128(x) => match i128::try_from(*x) {
            Ok(v) => Value::Int(v),
            Err(_) => return Image::MustFail,
        },
        // widening a NaN need not keep its payload: any NaN is accepted for an f32 NaN; every other float is unchanged bit for bit
        M::F32(x) if x.is_nan() => Value::Float(f64::from_bits(ANY_NAN)),
        M::F32(x) => Value::Float(*x as f64),
        M::F64(x) => Value::Float(*x),
        M::Char(c) => Value::String(c.to_string()),
        M::Str(s) => Value::String(s.clone()),
        M::Bytes(b) => Value::Vec(b.iter().map(|x| Value::Int(*x as i128)).collect()),
        M::None | M::Unit | M::UnitStruct(_) | M::Skipped => Value::None,
        M::Some(x) => sub!(x),
        M::UnitVariant(_, _, v) => Value::String(v.to_string()),
        M::NewtypeStruct(_, x) => sub!(x),
        M::NewtypeVariant(_, _, v, x) => one(v, sub!(x)),
        M::Seq(xs) | M::Tuple(xs) | M::TupleStruct(_, xs) | M::CollectSeq(xs, _) => match list(xs) {
            Ok(v) => v,
            Err(e) => return e,
        },
        M::CollectStr(x) => Value::String(x.clone()),
        M::TupleVariant(_, _, v, xs) => match list(xs) {
            Ok(l) => one(v, l),
            Err(e) => return e,
        },
        M::Map(kvs) | M::CollectMap(kvs, _) => {
            let mut out = BTreeMap::new();
            let mut unsupported = false;
            for (k, v) in kvs {
                // serde stops at the first failure, in entry order: key first, then value
                match k {
                    M::Str(s) => {
                        if unsupported {
                            continue;
                        }
                        match image(v) {
                            Image::Val(x) => {
                                out.insert(s.clone(), x);
                            }
                            other => return other,
                        }
                    }
                    M::Fail => {
                        if unsupported {
                            return Image::KeyUnsupported;
                        }
                        return Image::MustFail;
                    }
                    _ => unsupported = true,
                }
            }
            if unsupported {
                return Image::KeyUnsupported;
            }
            Value::Map(out)
        }
        M::Struct(_, fs) => match fields(fs) {
            Ok(v) => v,
            Err(e) => return e,
        },
        M::StructVariant(_, _, v, fs) => match fields(fs) {
            Ok(x) => one(v, x),
            Err(e) => return e,
        },
        M::Fail => return Image::MustFail,
        // "coincides with the serde_json image": serde_json is a human-readable format
        M::HumanReadableProbe => Value::String("human readable".into()),
    })
}

/// marks "any NaN" in an expected image
const ANY_NAN: u64 = 0x7ff8_dead_beef_0001;

/// equality of images: floats by bit pattern ("floats are unchanged"), everything else as `same`
fn same13(want: &Value, got: &Value) -> bool {
    match (want, got) {
        (Value::Float(w), Value::Float(g)) => if w.to_bits() == ANY_NAN { g.is_nan() } else { w.to_bits() == g.to_bits() },
        (Value::Vec(x), Value::Vec(y)) => x.len() == y.len() && x.iter().zip(y).all(|(p, q)| same13(p, q)),
        (Value::Map(x), Value::Map(y)) => x.len() == y.len() && x.iter().zip(y).all(|((k1, p), (k2, q))| k1 == k2 && same13(p, q)),
        _ => same(want, got),
    }
}

fn json_representable(m: &M) -> bool {
    match m {
        M::F32(x) => x.is_finite(),
        M::F64(x) => x.is_finite(),
        M::I128(x) => *x >= i64::MIN as i128 && *x <= u64::MAX as i128,
        M::U128(x) => *x <= u64::MAX as u128,
        M::Fail => false,
        M::Some(x) | M::NewtypeStruct(_, x) | M::NewtypeVariant(_, _, _, x) => json_representable(x),
        M::Seq(xs) | M::Tuple(xs) | M::TupleStruct(_, xs) | M::TupleVariant(_, _, _, xs) | M::CollectSeq(xs, _) => xs.iter().all(json_representable),
        M::Map(kvs) | M::CollectMap(kvs, _) => {
            // repeated keys are excluded: "keep every entry" is about distinct keys
            let mut seen = std::collections::BTreeSet::new();
            kvs.iter().all(|(k, v)| matches!(k, M::Str(s) if seen.insert(s.clone())) && json_representable(v))
        }
        M::Struct(_, fs) | M::StructVariant(_, _, _, fs) => fs.iter().all(|(_, v)| json_representable(v)),
        _ => true,
    }
}

fn from_json(j: &serde_json::Value) -> Value {
    match j {
        serde_json::Value::Null => Value::None,
        serde_json::Value::Bool(b) => Value::Bool(*b),
        serde_json::Value::Number(n) => {
            if let Some(i) = n.as_i64() {
                Value::Int(i as i128)
            } else if let Some(u) = n.as_u64() {
                Value::Int(u as i128)
            } else {
                Value::Float(n.as_f64().unwrap())
            }
        }
        serde_json::Value::String(s) => Value::String(s.clone()),
        serde_json::Value::Array(a) => Value::Vec(a.iter().map(from_json).collect()),
        serde_json::Value::Object(o) => Value::Map(o.iter().map(|(k, v)| (k.clone(), from_json(v))).collect()),
    }
}

fn has_fail(m: &M) -> bool {
    match m {
        M::Fail => true,
        M::Some(x) | M::NewtypeStruct(_, x) | M::NewtypeVariant(_, _, _, x) => has_fail(x),
        M::Seq(xs) | M::Tuple(xs) | M::TupleStruct(_, xs) | M::TupleVariant(_, _, _, xs) | M::CollectSeq(xs, _) => xs.iter().any(has_fail),
        M::Map(kvs) | M::CollectMap(kvs, _) => kvs.iter().any(|(k, v)| has_fail(k) || has_fail(v)),
        M::Struct(_, fs) | M::StructVariant(_, _, _, fs) => fs.iter().any(|(_, v)| has_fail(v)),
        _ => false,
    }
}

fn walk(m: &M, f: &mut impl FnMut(&M)) {
    f(m);
    match m {
        M::Some(x) | M::NewtypeStruct(_, x) | M::NewtypeVariant(_, _, _, x) => walk(x, f),
        M::Seq(xs) | M::Tuple(xs) | M::TupleStruct(_, xs) | M::TupleVariant(_, _, _, xs) | M::CollectSeq(xs, _) => xs.iter().for_each(|x| walk(x, f)),
        M::Map(kvs) | M::CollectMap(kvs, _) => kvs.iter().for_each(|(k, v)| {
            walk(k, f);
            walk(v, f)
        }),
        M::Struct(_, fs) | M::StructVariant(_, _, _, fs) => fs.iter().for_each(|(_, v)| walk(v, f)),
        _ => {}
    }
}

fn judge(ctx: &mut Ctx, m: &M, family: &str) {
    ctx.begin(|| format!("{family}\t{m:?}"));
    ctx.count();
    ctx.hit(&format!("family:{family}"));
    walk(m, &mut |x| ctx.hit(&format!("kind:{}", kind(x))));
    ctx.nontrivial(fnv(format!("{m:?}").as_bytes()));
    let want = image(m);
    let got = guard(|| m.serialize(ValueSerializer));
    let cell = kind(m);
    let case = |got: String| json!({"model": clip(format!("{m:?}"), 800), "expected": clip(format!("{want:?}"), 500), "observed": clip(got, 500)});
    let got = match got {
        Err(p) => {
            let why = if has_fail(m) { "failing-serialize" } else { cell };
            ctx.violation(format!("C13 panic {why}"), format!("serialization panicked: {p}"), case(p.clone()));
            return;
        }
        Ok(g) => g,
    };
    match (&want, &got) {
        (Image::Val(w), Ok(g)) => {
            if !same13(w, g) {
                // name the innermost kind whose image is wrong
                let culprit = culprit(m);
                ctx.violation(format!("C13 unfaithful-image {culprit}"), "the serialized Value is not the structurally faithful image".to_string(), case(format!("{g:?}")));
                return;
            }
            ctx.hit("outcome:faithful");
            if json_representable(m) {
                match serde_json::to_value(m) {
                    Ok(j) => {
                        ctx.hit("outcome:compared-with-serde_json");
                        if !same(&from_json(&j), g) {
                            ctx.violation(format!("C13 differs-from-serde_json {}", culprit(m)), "on JSON-representable data the image must coincide with the serde_json image".to_string(), json!({"model": clip(format!("{m:?}"), 800), "serde_json": clip(j.to_string(), 500), "observed": clip(format!("{g:?}"), 500)}));
                            return;
                        }
                    }
                    Err(_) => ctx.hit("outcome:serde_json-refused"),
                }
            }
            ctx.sample(&format!("faithful:{cell}"), || json!({"model": clip(format!("{m:?}"), 200), "image": clip(format!("{g:?}"), 200)}));
        }
        // a serializer may refuse a container whose announced length was wrong; what it may not do is accept it and lose entries
        (Image::Val(_), Err(_)) if LIE.with(|l| l.get()) != 0 => ctx.hit("outcome:misreported-length-refused"),
        (Image::Val(_), Err(e)) => ctx.violation(format!("C13 serializable-value-refused {}", culprit_err(m)), format!("serialization failed: {e}"), case(e.to_string())),
        (Image::MustFail, Err(_)) => {
            ctx.hit("outcome:error-as-required");
            ctx.sample("must-fail", || json!({"model": clip(format!("{m:?}"), 200)}));
        }
        (Image::MustFail, Ok(g)) => {
            let why = if has_fail(m) { "failing-serialize-ignored" } else { "u128-out-of-range-altered" };
            ctx.violation(format!("C13 {why}"), "a value that cannot be represented was serialized to something else instead of an error".to_string(), case(format!("{g:?}")));
        }
        (Image::KeyUnsupported, Err(_)) => ctx.hit("outcome:unsupported-key-refused"),
        (Image::KeyUnsupported, Ok(g)) => {
            ctx.hit("outcome:unsupported-key-accepted");
            if json_representable_ignoring_keys(m) {
                if let Ok(j) = serde_json::to_value(m) {
                    if !same(&from_json(&j), g) {
                        ctx.violation("C13 non-string-key-image-differs-from-serde_json", "a non-string map key was accepted but the image is not serde_json's".to_string(), case(format!("{g:?}")));
                    }
                }
            }
        }
    }
}

fn json_representable_ignoring_keys(m: &M) -> bool {
    let mut ok = true;
    walk(m, &mut |x| match x {
        M::F32(f) if !f.is_finite() => ok = false,
        M::F64(f) if !f.is_finite() => ok = false,
        M::I128(v) if *v < i64::MIN as i128 || *v > u64::MAX as i128 => ok = false,
        M::U128(v) if *v > u64::MAX as u128 => ok = false,
        M::Fail => ok = false,
        _ => {}
    });
    ok
}

/// innermost sub-model whose own serialization is already wrong
fn culprit(m: &M) -> &'static str {
    let mut found: Option<&'static str> = None;
    let mut check = |x: &M| {
        if let Image::Val(w) = image(x) {
            if let Ok(Ok(g)) = guard(|| x.serialize(ValueSerializer)) {
                if !same13(&w, &g) {
                    found = Some(kind(x)); // later (deeper / right-most) hits overwrite earlier ones
                }
            }
        }
    };
    walk(m, &mut check);
    found.unwrap_or(kind(m))
}

fn culprit_err(m: &M) -> &'static str {
    let mut found: Option<&'static str> = None;
    let mut check = |x: &M| {
        if let Image::Val(_) = image(x) {
            if let Ok(Err(_)) = guard(|| x.serialize(ValueSerializer)) {
                found = Some(kind(x));
            }
        }
    };
    walk(m, &mut check);
    found.unwrap_or(kind(m))
}

// ---- generators ---------------------------------------------------------------------------------

fn scalars() -> Vec<M> {
    let mut v = vec![
        M::Bool(true), M::Bool(false), M::Unit, M::None, M::UnitStruct("Alpha"), M::UnitVariant("E", 0, "Alpha"), M::UnitVariant("E", 7, "δ"), M::Char('a'), M::Char('"'), M::Char('\0'), M::Char('\u{10FFFF}'),
        M::Str(String::new()), M::Str("text".into()), M::Str("with \"quotes\" and \\".into()), M::Str("ünï\u{1F600}".into()), M::Bytes(vec![]), M::Bytes(vec![0, 255, 7]),
    ];
    for x in [i8::MIN, -1, 0, 1, i8::MAX] { v.push(M::I8(x)); }
    for x in [i16::MIN, -1, 0, i16::MAX] { v.push(M::I16(x)); }
    for x in [i32::MIN, -1, 0, i32::MAX] { v.push(M::I32(x)); }
    for x in [i64::MIN, i64::MIN + 1, -1, 0, i64::MAX] { v.push(M::I64(x)); }
    for x in [i128::MIN, i128::MIN + 1, i64::MIN as i128 - 1, i64::MIN as i128, -1, 0, u64::MAX as i128, u64::MAX as i128 + 1, i128::MAX - 1, i128::MAX] { v.push(M::I128(x)); }
    for x in [0, 1, u8::MAX] { v.push(M::U8(x)); }
    for x in [0, u16::MAX] { v.push(M::U16(x)); }
    for x in [0, u32::MAX] { v.push(M::U32(x)); }
    for x in [0, i64::MAX as u64, i64::MAX as u64 + 1, u64::MAX] { v.push(M::U64(x)); }
    for x in [0u128, u64::MAX as u128, u64::MAX as u128 + 1, i128::MAX as u128 - 1, i128::MAX as u128, i128::MAX as u128 + 1, i128::MAX as u128 + 2, u128::MAX - 1, u128::MAX] { v.push(M::U128(x)); }
    for x in [0.0f32, -0.0, 0.1, 1.0e-45, 16777217.0, f32::MAX, f32::MIN_POSITIVE, f32::INFINITY, f32::NEG_INFINITY, f32::NAN, 3.3] { v.push(M::F32(x)); }
    for x in [0.0f64, -0.0, 0.1, 5e-324, f64::MAX, 1e300, f64::INFINITY, f64::NEG_INFINITY, f64::NAN, 2.5, 1.0] { v.push(M::F64(x)); }
    // NaNs of every flavour: negative, with a payload, signalling
    for b in [0xfff8_0000_0000_0000u64, 0x7ff8_0000_0000_beef, 0x7ff0_0000_0000_0001, 0xfff0_0000_0000_0001, 0x7fff_ffff_ffff_ffff, 0xffff_ffff_ffff_ffff, 0x7ff4_0000_0000_0000] { v.push(M::F64(f64::from_bits(b))); }
    for b in [0xffc0_0000u32, 0x7fc0_beef, 0x7f80_0001] { v.push(M::F32(f32::from_bits(b))); }
    v
}

fn wrap_all(inner: &M) -> Vec<M> {
    let f = FIELDS;
    vec![
        M::Some(Box::new(inner.clone())),
        M::NewtypeStruct("Alpha", Box::new(inner.clone())),
        M::NewtypeVariant("E", 1, "beta", Box::new(inner.clone())),
        M::Seq(vec![inner.clone()]),
        M::Seq(vec![M::I8(1), inner.clone(), M::Str("after".into())]),
        M::Tuple(vec![inner.clone(), M::Bool(true)]),
        M::TupleStruct("Gamma_3", vec![M::Unit, inner.clone()]),
        M::TupleVariant("E", 2, "Gamma_3", vec![inner.clone(), inner.clone()]),
        M::Map(vec![(M::Str("k".into()), inner.clone())]),
        M::Map(vec![(M::Str("k1".into()), M::I8(1)), (M::Str("k0".into()), inner.clone()), (M::Str("k2".into()), M::None)]),
        M::Struct("Alpha", vec![(f[0], inner.clone())]),
        M::Struct("Alpha", vec![(f[3], M::Bool(false)), (f[1], inner.clone()), (f[4], M::Str("z".into()))]),
        M::StructVariant("E", 3, "δ", vec![(f[2], inner.clone()), (f[0], M::U8(9))]),
        // through the provided collect_* methods with every kind of size hint
        M::CollectSeq(vec![inner.clone(), M::U8(1)], 0), M::CollectSeq(vec![M::U8(1), inner.clone()], 1), M::CollectSeq(vec![inner.clone()], 2), M::CollectSeq(vec![inner.clone(), inner.clone()], 3), M::CollectSeq(vec![inner.clone()], 4),
        M::CollectMap(vec![(M::Str("k".into()), inner.clone())], 3), M::CollectMap(vec![(M::Str("a".into()), M::U8(0)), (M::Str("k".into()), inner.clone())], 2),
        // next to skipped fields
        M::Struct("Alpha", vec![(f[5], M::Skipped), (f[1], inner.clone()), (f[4], M::Skipped)]),
        M::StructVariant("E", 3, "δ", vec![(f[2], inner.clone()), (f[0], M::Skipped)]),
        // as a map key
        M::Map(vec![(inner.clone(), M::I8(1))]),
        M::Map(vec![(M::Str("first".into()), M::I8(0)), (inner.clone(), M::I8(1))]),
    ]
}

/// texts a Display-serialized type may produce: they stay strings whatever they look like
fn collect_str_text(rng: &mut Rng) -> String {
    match rng.below(4) {
        0 => rng.pick(&["2020-01-02T12:00:00+02:00", "2020-01-02T10:00:00Z", "1970-01-01T00:00:00Z", "2015-06-30T23:59:60Z", "2020-01-02", "12:00:00", "P1D", "PT1S", "1s", "i1", "f1.5", "d1.0", "1", "-1", "1.5", "1e3", "true", "false", "none", "null", "", " ", "[1]", "{}", "\"q\"", "0x10", "NaN", "inf", "127.0.0.1", "::1", "550e8400-e29b-41d4-a716-446655440000"]).to_string(),
        1 => match crate::pools::random_value(rng, "DateTime") { Value::DateTime(d) => d.to_rfc3339(), _ => String::new() },
        2 => match crate::pools::random_value(rng, *rng.clone().pick(&["Int", "Float", "Decimal", "Bool", "Duration"])) { v => v.to_string() },
        _ => match crate::pools::random_value(rng, "String") { Value::String(s) => s, _ => String::new() },
    }
}

fn gen(rng: &mut Rng, depth: usize, sc: &[M]) -> M {
    if depth == 0 || rng.chance(1, 3) {
        if rng.chance(1, 40) {
            return M::Fail;
        }
        // half of the scalars are random rather than boundary values
        if rng.chance(1, 2) {
            let r = rng.next();
            return match rng.below(16) {
                0 => M::I8(r as i8), 1 => M::I16(r as i16), 2 => M::I32(r as i32), 3 => M::I64(r as i64), 4 => M::I128(rng.i128() >> rng.below(120)),
                5 => M::U8(r as u8), 6 => M::U16(r as u16), 7 => M::U32(r as u32), 8 => M::U64(r >> rng.below(60)), 9 => M::U128((rng.i128() as u128) >> rng.below(127)),
                10 => M::F32(f32::from_bits(r as u32)), 11 => M::F64(f64::from_bits(r)),
                12 => M::Char(char::from_u32((r % 0x11_0000) as u32).unwrap_or('x')),
                13 => match crate::pools::random_value(rng, "String") { Value::String(s) => M::Str(s), _ => M::Unit },
                14 => M::Bytes((0..rng.below(600)).map(|i| (r >> (i % 57)) as u8).collect()),
                _ => M::Bool(r & 1 == 1),
            };
        }
        return sc[rng.below(sc.len())].clone();
    }
    let d = depth - 1;
    // mostly small containers, sometimes wide ones (more entries than any inline buffer would hold)
    let n = if rng.chance(1, 25) { 9 + rng.below(40) } else { rng.below(4) };
    if rng.chance(1, 12) {
        let h = rng.below(5) as u8;
        return match rng.below(3) {
            0 => M::CollectSeq((0..n).map(|_| gen(rng, d, sc)).collect(), h),
            1 => M::CollectMap((0..n).map(|i| (M::Str(format!("{}{i}", FIELDS[rng.below(FIELDS.len())])), gen(rng, d, sc))).collect(), h),
            _ => M::CollectStr(collect_str_text(rng)),
        };
    }
    let name = NAMES[rng.below(NAMES.len())];
    let var = NAMES[rng.below(NAMES.len())];
    let idx = rng.below(5) as u32;
    match rng.below(12) {
        0 => M::Some(Box::new(gen(rng, d, sc))),
        1 => M::NewtypeStruct(name, Box::new(gen(rng, d, sc))),
        2 => M::NewtypeVariant(name, idx, var, Box::new(gen(rng, d, sc))),
        3 => M::Seq((0..n).map(|_| gen(rng, d, sc)).collect()),
        4 => M::Tuple((0..n).map(|_| gen(rng, d, sc)).collect()),
        5 => M::TupleStruct(name, (0..n).map(|_| gen(rng, d, sc)).collect()),
        6 => M::TupleVariant(name, idx, var, (0..n).map(|_| gen(rng, d, sc)).collect()),
        7 | 8 => M::Map(
            (0..n)
                .map(|i| {
                    let k = if rng.chance(1, 12) { gen(rng, 0, sc) } else { M::Str(format!("{}{i}", FIELDS[rng.below(FIELDS.len())])) };
                    (k, gen(rng, d, sc))
                })
                .collect(),
        ),
        9 | 10 => {
            let mut used = vec![];
            let mut fs = vec![];
            for _ in 0..n {
                let k = FIELDS[rng.below(FIELDS.len())];
                if !used.contains(&k) {
                    used.push(k);
                    fs.push((k, if rng.chance(1, 6) { M::Skipped } else { gen(rng, d, sc) }));
                }
            }
            M::Struct(name, fs)
        }
        _ => {
            let mut used = vec![];
            let mut fs = vec![];
            for _ in 0..n {
                let k = FIELDS[rng.below(FIELDS.len())];
                if !used.contains(&k) {
                    used.push(k);
                    fs.push((k, if rng.chance(1, 6) { M::Skipped } else { gen(rng, d, sc) }));
                }
            }
            M::StructVariant(name, idx, var, fs)
        }
    }
}

mod derived_types {
    use serde::Serialize;
    use std::collections::BTreeMap;
    #[derive(Serialize, Clone, Debug)]
    pub struct Person {
        pub name: String,
        #[serde(skip_serializing_if = "Option::is_none")]
        pub nickname: Option<String>,
        #[serde(skip_serializing_if = "Vec::is_empty")]
        pub tags: Vec<String>,
        #[serde(skip)]
        pub secret: u32,
        #[serde(rename = "years-old")]
        pub age: u8,
        #[serde(flatten)]
        pub extra: BTreeMap<String, i64>,
        pub shape: Shape,
        pub tagged: Tagged,
        pub either: Either,
        pub adjacent: Adjacent,
        pub pair: (i8, Option<f64>),
        pub unit: Marker,
        pub wrapped: Meters,
    }
    #[derive(Serialize, Clone, Debug)]
    pub enum Shape {
        Point,
        Circle(f64),
        Rect(u32, u32),
        Named {
            #[serde(skip_serializing_if = "Option::is_none")]
            label: Option<String>,
            sides: u64,
        },
    }
    #[derive(Serialize, Clone, Debug)]
    #[serde(tag = "type")]
    pub enum Tagged {
        A { x: i32 },
        B,
        #[serde(rename = "see")]
        C { y: Option<bool> },
    }
    #[derive(Serialize, Clone, Debug)]
    #[serde(untagged)]
    pub enum Either {
        Num(i64),
        Text(String),
        Both { n: i64, t: String },
        Nothing,
    }
    #[derive(Serialize, Clone, Debug)]
    #[serde(tag = "t", content = "c", rename_all = "SCREAMING_SNAKE_CASE")]
    pub enum Adjacent {
        FirstOne(u8),
        SecondOne { deep: Vec<Option<u16>> },
        Third,
    }
    /// library types with their own Serialize impls (Display-based, struct-based, newtype-based, sequence-based)
    #[derive(Serialize, Debug)]
    pub struct Library {
        pub offset_time: chrono::DateTime<chrono::FixedOffset>,
        pub utc_time: chrono::DateTime<chrono::Utc>,
        pub naive: chrono::NaiveDateTime,
        pub date: chrono::NaiveDate,
        pub time: chrono::NaiveTime,
        pub ip: std::net::IpAddr,
        pub socket: std::net::SocketAddr,
        pub elapsed: std::time::Duration,
        pub since_epoch: std::time::SystemTime,
        pub path: std::path::PathBuf,
        pub nonzero: std::num::NonZeroU16,
        pub wrapping: std::num::Wrapping<i8>,
        pub reverse: std::cmp::Reverse<u32>,
        pub range: std::ops::Range<i16>,
        pub inclusive: std::ops::RangeInclusive<u8>,
        pub bound: std::ops::Bound<u8>,
        pub cell: std::cell::Cell<u8>,
        pub refcell: std::cell::RefCell<Vec<u8>>,
        pub mutex: std::sync::Mutex<i32>,
        pub set: std::collections::BTreeSet<i32>,
        pub deque: std::collections::VecDeque<Option<bool>>,
        pub heap: std::collections::BinaryHeap<u8>,
        pub hash: std::collections::HashMap<String, u8>,
        pub array: [i8; 3],
        pub empty_array: [u8; 0],
        pub one_tuple: (u8,),
        pub result: Result<u8, String>,
        pub unit_option: Option<()>,
        pub nested_option: Option<Option<u8>>,
        pub character: char,
        pub boxed: Box<str>,
        pub cow: std::borrow::Cow<'static, str>,
        pub phantom: std::marker::PhantomData<u64>,
        pub decimal: rust_decimal::Decimal,
        pub cstring: std::ffi::CString,
        pub int_keys: BTreeMap<String, BTreeMap<String, [u8; 2]>>,
    }
    #[derive(Serialize, Clone, Debug)]
    pub struct Marker;
    #[derive(Serialize, Clone, Debug)]
    pub struct Meters(pub f64);
}

/// Real `#[derive(Serialize)]` types using the common attributes (skip_serializing_if, skip, rename, flatten, internally / adjacently
/// tagged and untagged enums): all data is JSON-representable, so the image must be serde_json's.
fn derived(ctx: &mut Ctx) {
    use derived_types::*;
    let mut rng = ctx.rng.clone();
    for _ in 0..ctx.tier.of(2_000, 20_000) {
        let word = |rng: &mut Rng| match crate::pools::random_value(rng, "String") { Value::String(s) => s, _ => String::new() };
        let p = Person {
            name: word(&mut rng),
            nickname: if rng.chance(1, 2) { None } else { Some(word(&mut rng)) },
            tags: (0..rng.below(3)).map(|_| word(&mut rng)).collect(),
            secret: rng.next() as u32,
            age: rng.next() as u8,
            extra: (0..rng.below(3)).map(|i| (format!("extra{i}"), rng.next() as i64)).collect(),
            shape: match rng.below(5) { 0 => Shape::Point, 1 => Shape::Circle(rng.range(-1000, 1000) as f64 / 8.0), 2 => Shape::Rect(rng.next() as u32, 0), 3 => Shape::Named { label: None, sides: rng.next() }, _ => Shape::Named { label: Some(word(&mut rng)), sides: 3 } },
            tagged: match rng.below(4) { 0 => Tagged::A { x: rng.next() as i32 }, 1 => Tagged::B, 2 => Tagged::C { y: None }, _ => Tagged::C { y: Some(rng.chance(1, 2)) } },
            either: match rng.below(4) { 0 => Either::Num(rng.next() as i64), 1 => Either::Text(word(&mut rng)), 2 => Either::Both { n: -1, t: word(&mut rng) }, _ => Either::Nothing },
            adjacent: match rng.below(3) { 0 => Adjacent::FirstOne(rng.next() as u8), 1 => Adjacent::SecondOne { deep: (0..rng.below(4)).map(|i| if i % 2 == 0 { None } else { Some(rng.next() as u16) }).collect() }, _ => Adjacent::Third },
            pair: (rng.next() as i8, if rng.chance(1, 2) { None } else { Some(rng.range(-4000, 4000) as f64 / 16.0) }),
            unit: Marker,
            wrapped: Meters(rng.range(-100, 100) as f64 / 4.0),
        };
        ctx.begin(|| format!("derived\t{p:?}"));
        ctx.count();
        ctx.hit("family:derived-types-with-serde-attributes");
        ctx.nontrivial(fnv(format!("{p:?}").as_bytes()));
        let j = serde_json::to_value(&p).expect("serde_json serializes the derived type");
        match guard(|| p.serialize(ValueSerializer)) {
            Ok(Ok(g)) if same(&from_json(&j), &g) => {
                ctx.hit("outcome:derived-type-coincides-with-serde_json");
                ctx.sample("derived", || json!({"value": clip(format!("{p:?}"), 300), "image": clip(format!("{g:?}"), 300)}));
            }
            Ok(Ok(g)) => ctx.violation("C13 differs-from-serde_json derived-type", "a derived Serialize (skip_serializing_if / skip / rename / flatten / tagged enums) has an image that is not serde_json's".to_string(), json!({"value": clip(format!("{p:?}"), 600), "serde_json": clip(j.to_string(), 500), "observed": clip(format!("{g:?}"), 500)})),
            Ok(Err(e)) => ctx.violation("C13 serializable-value-refused derived-type", format!("serialization failed: {e}"), json!({"value": clip(format!("{p:?}"), 600)})),
            Err(p2) => ctx.violation("C13 panic derived-type", format!("serialization panicked: {p2}"), json!({"value": clip(format!("{p:?}"), 600)})),
        }
    }
    // library types
    for _ in 0..ctx.tier.of(1_000, 10_000) {
        use chrono::TimeZone;
        let secs = rng.range(-2_000_000_000, 4_000_000_000);
        let nanos = if rng.chance(1, 2) { 0 } else { rng.below(1_000_000_000) as u32 };
        let utc = chrono::Utc.timestamp_opt(secs, nanos).unwrap();
        let off = chrono::FixedOffset::east_opt(rng.range(-14 * 3600, 14 * 3600) as i32 / 60 * 60).unwrap();
        let word = |rng: &mut Rng| match crate::pools::random_value(rng, "String") { Value::String(s) => s.replace('\0', ""), _ => String::new() };
        let l = Library {
            offset_time: utc.with_timezone(&off),
            utc_time: utc,
            naive: utc.naive_utc(),
            date: utc.date_naive(),
            time: utc.time(),
            ip: if rng.chance(1, 2) { std::net::IpAddr::V4(std::net::Ipv4Addr::from(rng.next() as u32)) } else { std::net::IpAddr::V6(std::net::Ipv6Addr::from(rng.i128() as u128)) },
            socket: std::net::SocketAddr::new(std::net::IpAddr::V4(std::net::Ipv4Addr::from(rng.next() as u32)), rng.next() as u16),
            elapsed: std::time::Duration::new(rng.next() >> rng.below(64), rng.below(1_000_000_000) as u32),
            since_epoch: std::time::UNIX_EPOCH + std::time::Duration::new(rng.below(4_000_000_000) as u64, rng.below(1_000_000_000) as u32),
            path: std::path::PathBuf::from(format!("/tmp/{}", word(&mut rng))),
            nonzero: std::num::NonZeroU16::new(1 + rng.below(65_535) as u16).unwrap(),
            wrapping: std::num::Wrapping(rng.next() as i8),
            reverse: std::cmp::Reverse(rng.next() as u32),
            range: (rng.next() as i16)..(rng.next() as i16),
            inclusive: (rng.next() as u8)..=(rng.next() as u8),
            bound: match rng.below(3) { 0 => std::ops::Bound::Unbounded, 1 => std::ops::Bound::Included(rng.next() as u8), _ => std::ops::Bound::Excluded(rng.next() as u8) },
            cell: std::cell::Cell::new(rng.next() as u8),
            refcell: std::cell::RefCell::new((0..rng.below(4)).map(|_| rng.next() as u8).collect()),
            mutex: std::sync::Mutex::new(rng.next() as i32),
            set: (0..rng.below(5)).map(|_| rng.next() as i32).collect(),
            deque: (0..rng.below(4)).map(|i| if i % 2 == 0 { None } else { Some(rng.chance(1, 2)) }).collect(),
            heap: (0..rng.below(4)).map(|_| rng.next() as u8).collect(),
            hash: (0..rng.below(2)).map(|_| (word(&mut rng), rng.next() as u8)).collect(),
            array: [rng.next() as i8, 0, -1],
            empty_array: [],
            one_tuple: (rng.next() as u8,),
            result: if rng.chance(1, 2) { Ok(rng.next() as u8) } else { Err(word(&mut rng)) },
            unit_option: if rng.chance(1, 2) { Some(()) } else { None },
            nested_option: match rng.below(3) { 0 => None, 1 => Some(None), _ => Some(Some(rng.next() as u8)) },
            character: char::from_u32((rng.next() % 0x11_0000) as u32).unwrap_or('x'),
            boxed: word(&mut rng).into_boxed_str(),
            cow: std::borrow::Cow::Owned(word(&mut rng)),
            phantom: std::marker::PhantomData,
            decimal: match crate::pools::random_value(&mut rng, "Decimal") { Value::Decimal(d) => d, _ => rust_decimal::Decimal::ZERO },
            cstring: std::ffi::CString::new(word(&mut rng).into_bytes()).unwrap_or_default(),
            int_keys: (0..rng.below(3)).map(|i| (format!("k{i}"), (0..rng.below(3)).map(|j| (format!("{j}"), [i as u8, j as u8])).collect())).collect(),
        };
        ctx.begin(|| format!("library\t{l:?}"));
        ctx.count();
        ctx.hit("family:library-types-with-their-own-serialize");
        ctx.nontrivial(fnv(format!("{l:?}").as_bytes()));
        let j = serde_json::to_value(&l).expect("serde_json serializes the library types");
        match guard(|| l.serialize(ValueSerializer)) {
            Ok(Ok(g)) if same(&from_json(&j), &g) => {
                ctx.hit("outcome:derived-type-coincides-with-serde_json");
                ctx.sample("library", || json!({"value": clip(format!("{l:?}"), 400), "image": clip(format!("{g:?}"), 400)}));
            }
            Ok(Ok(g)) => {
                // name the first field that differs
                let field = match (&from_json(&j), &g) {
                    (Value::Map(w), Value::Map(o)) => w.iter().find(|(k, v)| o.get(*k).map(|x| !same(x, v)).unwrap_or(true)).map(|(k, _)| k.clone()).or_else(|| o.keys().find(|k| !w.contains_key(*k)).cloned()).unwrap_or_default(),
                    _ => "not a map".to_string(),
                };
                ctx.violation(format!("C13 differs-from-serde_json library-type field {field}"), "a library type's Serialize has an image that is not serde_json's".to_string(), json!({"value": clip(format!("{l:?}"), 800), "serde_json": clip(j.to_string(), 800), "observed": clip(format!("{g:?}"), 800)}))
            }
            Ok(Err(e)) => ctx.violation("C13 serializable-value-refused library-type", format!("serialization failed: {e}"), json!({"value": clip(format!("{l:?}"), 600)})),
            Err(p2) => ctx.violation("C13 panic library-type", format!("serialization panicked: {p2}"), json!({"value": clip(format!("{l:?}"), 600)})),
        }
    }
    ctx.rng = rng;
}

/// containers whose announced length is wrong (under by one, 1 for everything, over by one, more than double)
fn misreported_lengths(ctx: &mut Ctx, sc: &[M]) {
    let mut rng = ctx.rng.clone();
    for lie in 1..=4u8 {
        for i in 0..ctx.tier.of(700, 7_000) {
            let m = match i % 4 {
                0 => gen(&mut rng, 2, sc),
                1 => gen(&mut rng, 3, sc),
                2 => {
                    // one container of every kind around 2..6 scalars
                    let n = 2 + rng.below(5);
                    let xs: Vec<M> = (0..n).map(|_| sc[rng.below(sc.len())].clone()).collect();
                    let fs: Vec<(&'static str, M)> = ["a", "b", "c", "d", "e", "f"].iter().take(n).cloned().zip(xs.iter().cloned()).collect();
                    match rng.below(7) {
                        0 => M::Seq(xs),
                        1 => M::Tuple(xs),
                        2 => M::TupleStruct("T", xs),
                        3 => M::TupleVariant("E", 1, "V", xs),
                        4 => M::Struct("S", fs),
                        5 => M::StructVariant("E", 2, "W", fs),
                        _ => M::Map(fs.into_iter().map(|(k, v)| (M::Str(k.to_string()), v)).collect()),
                    }
                }
                _ => gen(&mut rng, 4, sc),
            };
            let mut containers = 0;
            walk(&m, &mut |x| containers += matches!(x, M::Seq(_) | M::Tuple(_) | M::TupleStruct(..) | M::TupleVariant(..) | M::Map(_) | M::Struct(..) | M::StructVariant(..)) as usize);
            if containers == 0 {
                continue;
            }
            LIE.with(|l| l.set(lie));
            judge(ctx, &m, "misreported-length");
            LIE.with(|l| l.set(0));
            ctx.hit(&format!("misreported-length:mode{lie}"));
        }
    }
    ctx.rng = rng;
}

fn run(ctx: &mut Ctx) {
    let sc = scalars();
    // every scalar alone, under every wrapper, and under every wrapper twice; Fail at every position
    let mut leaves = sc.clone();
    leaves.push(M::Fail);
    leaves.push(M::HumanReadableProbe);
    for t in ["2020-01-02T12:00:00+02:00", "2020-01-02T10:00:00Z", "2015-06-30T23:59:60Z", "1", "1.5", "true", "none", "", "i1", "PT1S"] {
        leaves.push(M::CollectStr(t.to_string()));
    }
    for s in &leaves {
        if ctx.mine() {
            judge(ctx, s, "scalar");
        }
        for w in wrap_all(s) {
            if ctx.mine() {
                judge(ctx, &w, "scalar-in-container");
            }
            if matches!(s, M::Fail | M::U128(_) | M::F32(_) | M::Unit | M::Str(_) | M::I128(_)) {
                for ww in wrap_all(&w) {
                    if ctx.mine() {
                        judge(ctx, &ww, "scalar-in-nested-containers");
                    }
                }
            }
        }
    }
    // wide containers: 64 elements / 14 fields / 40 map entries, and a byte array next to the same bytes as a sequence
    if ctx.mine() {
        let many: Vec<M> = (0..64).map(|i| M::I32(i * 3 - 50)).collect();
        let fields: Vec<(&'static str, M)> = FIELDS.iter().enumerate().filter(|(i, _)| *i != 12).map(|(i, f)| (*f, M::U16(i as u16))).collect();
        let entries: Vec<(M, M)> = (0..40).map(|i| (M::Str(format!("key{i:02}")), M::I64(i))).collect();
        let bytes: Vec<u8> = (0..=255u8).collect();
        for n in [16usize, 32, 128, 256, 1024, 4096] {
            judge(ctx, &M::Seq((0..n).map(|i| M::U32(i as u32)).collect()), "wide-containers");
            judge(ctx, &M::Map((0..n).map(|i| (M::Str(format!("k{i:05}")), M::U64(u64::MAX - i as u64))).collect()), "wide-containers");
        }
        let many_fields: Vec<(&'static str, M)> = (0..40).map(|i| (Box::leak(format!("field_{i:02}").into_boxed_str()) as &'static str, M::I16(i as i16))).collect();
        judge(ctx, &M::Struct("Wide", many_fields[..16].to_vec()), "wide-containers");
        judge(ctx, &M::Struct("Wide", many_fields[..32].to_vec()), "wide-containers");
        judge(ctx, &M::StructVariant("E", 70_000, "Wide", many_fields.clone()), "wide-containers");
        judge(ctx, &M::UnitVariant("E", 300, "beta"), "wide-containers");
        judge(ctx, &M::Map(vec![(M::Str("k".repeat(300)), M::I8(1)), (M::Str("k".repeat(301)), M::I8(2))]), "wide-containers");
        judge(ctx, &M::Str("s".repeat(70_000)), "wide-containers");
        judge(ctx, &M::TupleStruct("T", vec![M::NewtypeVariant("E", 1, "beta", Box::new(M::U64((1 << 53) + 1))), M::NewtypeVariant("E", 1, "beta", Box::new(M::U64((1 << 63) - 1)))]), "wide-containers");
        judge(ctx, &M::Map(vec![(M::Str("z".into()), M::Some(Box::new(M::F64(-0.0)))), (M::Str("n".into()), M::F64(f64::from_bits(0x7ff8_0000_0000_1234)))]), "wide-containers");
        for m in [
            M::Seq(many.clone()), M::Tuple(many.clone()), M::TupleStruct("Alpha", many.clone()), M::TupleVariant("E", 1, "beta", many.clone()),
            M::Struct("Alpha", fields.clone()), M::StructVariant("E", 2, "δ", fields.clone()), M::Map(entries.clone()),
            M::Bytes(bytes.clone()), M::Seq(bytes.iter().map(|b| M::U8(*b)).collect()),
            M::Map(vec![(M::Str("dup".into()), M::I8(1)), (M::Str("other".into()), M::I8(2)), (M::Str("dup".into()), M::I8(3))]),
            M::NewtypeStruct("Alpha", Box::new(M::Some(Box::new(M::Unit)))), M::Some(Box::new(M::NewtypeStruct("beta", Box::new(M::None)))),
            M::Char('é'), M::Char('\u{1F600}'), M::Str("\u{0}".into()),
        ] {
            // real library types whose Serialize consults is_human_readable
            if let M::Char('é') = m {
                let ip = std::net::Ipv4Addr::new(127, 0, 0, 1);
                ctx.count();
                ctx.hit("kind:is_human_readable-std-type");
                match guard(|| ip.serialize(ValueSerializer)) {
                    Ok(Ok(Value::String(s))) if s == "127.0.0.1" => {}
                    other => ctx.violation("C13 differs-from-serde_json is_human_readable-probe", format!("Ipv4Addr serialized to {other:?}, serde_json gives \"127.0.0.1\""), json!({"model": "std::net::Ipv4Addr 127.0.0.1"})),
                }
            }
            judge(ctx, &m, "wide-containers");
            judge(ctx, &M::Struct("Wrap", vec![("inner", m.clone()), ("after", M::Bool(true))]), "wide-containers");
        }
        // ten levels of nesting through every wrapper kind
        let mut deep = M::I128(i64::MAX as i128 + 12_345);
        for i in 0..12 {
            deep = wrap_all(&deep).swap_remove(i % 22);
        }
        judge(ctx, &deep, "deep-nesting");
        // 100 and 600 levels through one wrapper kind at a time (options, newtypes, one-element sequences / tuples / maps / structs / variants)
        for levels in [100usize, 600] {
            for k in [0usize, 1, 2, 3, 5, 6, 8, 10, 12, 13, 18] {
                let mut deep = M::U64(u64::MAX - 7);
                for _ in 0..levels {
                    deep = wrap_all(&deep).swap_remove(k);
                }
                judge(ctx, &deep, "deep-nesting");
            }
        }
    }
    // all fields skipped; derived types with the usual serde attributes, judged against serde_json
    if ctx.mine() {
        judge(ctx, &M::Struct("Alpha", vec![("a", M::Skipped), ("b", M::Skipped)]), "empty-containers");
        judge(ctx, &M::StructVariant("E", 0, "beta", vec![("a", M::Skipped)]), "empty-containers");
    }
    derived(ctx);
    // empty containers of every kind
    if ctx.mine() {
        for m in [M::Seq(vec![]), M::Tuple(vec![]), M::TupleStruct("Alpha", vec![]), M::TupleVariant("E", 0, "beta", vec![]), M::Map(vec![]), M::Struct("Alpha", vec![]), M::StructVariant("E", 0, "beta", vec![])] {
            judge(ctx, &m, "empty-containers");
            for w in wrap_all(&m) {
                judge(ctx, &w, "empty-containers");
            }
        }
    }
    misreported_lengths(ctx, &sc);
    // random models to depth 5
    let mut rng = ctx.rng.clone();
    for _ in 0..ctx.tier.of(150_000, 1_500_000) {
        let depth = if rng.chance(1, 20) { 6 + rng.below(5) } else { 1 + rng.below(5) };
        let m = gen(&mut rng, depth, &sc);
        judge(ctx, &m, "random");
    }
    ctx.rng = rng;
}

fn finish(m: &Merged, tier: Tier) -> Finish {
    let kinds = m.prefix_count("kind:");
    let mut f = Finish {
        rule: "a generic model of the serde data model (one variant per kind, hand-written Serialize that calls exactly the corresponding Serializer method, plus a leaf whose Serialize fails, skipped struct fields, the provided collect_seq / collect_map / collect_str methods with five kinds of size hint, an is_human_readable probe) is serialized with ValueSerializer; oracles: never a panic; equality with an independent image function written from the statement (integers exact, u128 > i128::MAX an error, options collapse, order kept, entries kept, variants tagged by name, failing Serialize anywhere an error, non-string keys an error or serde_json's image); equality with serde_json::to_value on JSON-representable models. Models: every boundary scalar alone, under each of 15 wrappers (including as a map key), doubly wrapped for the delicate ones, empty containers, random models to depth 5-10; real #[derive(Serialize)] types with skip_serializing_if / skip / rename / flatten / internally-, adjacently- and un-tagged enums and 36 library types (chrono, std::net, std::time, ranges, cells, collections, Result, CString ...) compared with serde_json. Floats are compared bit for bit (any NaN only for a widened f32 NaN). Every case is non-trivial; distinct by model".into(),
        exhaustive: false,
        exhaustive_part: "scalar x wrapper (x wrapper) products are complete".into(),
        ..Default::default()
    };
    f.floors.push(floor(format!("serde data-model kinds exercised: {kinds}/34 (29 kinds + failing Serialize + skipped struct field + collect_seq / collect_map / collect_str)"), kinds >= 34));
    f.floors.push(floor(format!("derived types compared with serde_json: {}", m.c("outcome:derived-type-coincides-with-serde_json")), m.c("outcome:derived-type-coincides-with-serde_json") >= tier.of(1_000, 10_000)));
    f.floors.push(floor(format!("faithful images: {}", m.c("outcome:faithful")), m.c("outcome:faithful") >= tier.of(100_000, 1_000_000)));
    f.floors.push(floor(format!("compared with serde_json: {}", m.c("outcome:compared-with-serde_json")), m.c("outcome:compared-with-serde_json") >= tier.of(5_000, 50_000)));
    f.floors.push(floor(format!("required errors observed: {}", m.c("outcome:error-as-required")), m.c("outcome:error-as-required") >= 1_000));
    f.floors.push(floor(format!("unsupported keys refused: {}", m.c("outcome:unsupported-key-refused")), m.c("outcome:unsupported-key-refused") >= 100));
    f.floors.push(floor(format!("containers with a misreported length: {} in {} modes (refused outright: {})", m.c("family:misreported-length"), m.prefix_count("misreported-length:mode"), m.c("outcome:misreported-length-refused")), m.c("family:misreported-length") >= tier.of(10_000, 100_000) && m.prefix_count("misreported-length:mode") == 4));
    f.extras.insert("kinds_hit".into(), json!(kinds));
    f.extras.insert("kinds".into(), json!(m.prefix_map("kind:")));
    f.extras.insert("outcomes".into(), json!(m.prefix_map("outcome:")));
    f.extras.insert("families".into(), json!(m.prefix_map("family:")));
    f.assumptions = vec![
        "Serialize implementations that violate the serde protocol (value before key) are not generated: they are not 'serde-serializable' and serde_json panics on them too".into(),
        "serde_json 1.0.151 without arbitrary_precision is the JSON reference".into(),
    ];
    f
}
