//! C15 — a ruleset never holds duplicate or ill-formed rule and function names; the built
//! ruleset contains exactly the accepted rules (in order) and functions; symbols: last writer wins.

use crate::core::{floor, guard, Ctx, Finish, Merged, Property, Tier};
use crate::evalcommon::*;
use crate::exec::block_on;
use crate::instr::{FaultPlan, FnDesc, Kind, Log, TFn};
use crate::refeval::{classify, Obs, Pay};
use crate::rng::{fnv, Rng};
use reval::expr::Expr;
use reval::prelude::*;
use reval::Error;
use serde_json::json;
use std::collections::BTreeMap;
use std::sync::Arc;
use unicode_xid::UnicodeXID;

pub const PROP: Property = Property { id: "C15", run, finish, shards: |_| 16, expect_s: |t| t.of(20, 200) };

const RESERVED: [&str; 38] = [
    "and", "or", "if", "then", "else", "is_some", "is_none", "none", "some", "int", "float", "dec", "contains", "in", "date_time", "datetime", "duration", "to_upper", "to_lower", "uppercase",
    "lowercase", "trim", "round", "floor", "fract", "year", "month", "week", "day", "hour", "minute", "second", "true", "false", "starts", "ends", "key", "val",
];

/// the statement's rule for function names, written independently of reval
fn well_formed(name: &str) -> bool {
    let mut cs = name.chars();
    match cs.next() {
        Some(c) if c == '_' || c.is_xid_start() => {}
        _ => return false,
    }
    cs.all(|c| c.is_xid_continue())
}

fn acceptable_function_name(name: &str) -> bool {
    well_formed(name) && !RESERVED.contains(&name)
}

fn leak(s: &str) -> &'static str {
    Box::leak(s.to_string().into_boxed_str())
}

fn tfn(name: &'static str, log: &Arc<Log>) -> TFn {
    TFn { desc: FnDesc { name, cacheable: false, kind: Kind::Tag, suspend: 0 }, log: log.clone(), plan: Arc::new(FaultPlan::default()) }
}

/// symbol values are written as integers in the histories; the negative ones stand for values of the other kinds
/// (a symbol may hold anything, in particular none / false / 0 / "" / empty collections)
fn sym_value(v: i128) -> Value {
    match v {
        -1 => Value::None,
        -2 => Value::Bool(false),
        -3 => Value::String(String::new()),
        -4 => Value::Vec(vec![]),
        -5 => Value::Map(BTreeMap::new()),
        -6 => Value::Float(0.0),
        -7 => Value::Bool(true),
        -8 => Value::Vec(vec![Value::None]),
        -9 => Value::Decimal(rust_decimal::Decimal::ZERO),
        -10 => Value::Duration(chrono::TimeDelta::zero()),
        _ => Value::Int(v),
    }
}

fn rule(name: &str) -> Rule {
    // every rule evaluates to its own name, so outcomes identify their rule by value as well
    Rule::new(name, BTreeMap::new(), Expr::value(name.to_string()))
}

#[derive(Clone, Debug)]
enum Call {
    Rule(&'static str),
    Rules(Vec<&'static str>),
    Function(&'static str),
    Functions(Vec<&'static str>),
    Symbol(&'static str, i128),
    Symbols(Vec<(&'static str, i128)>),
}

#[derive(Clone, Debug, PartialEq)]
enum Refusal {
    DuplicateRule(String),
    DuplicateFunction(String),
    InvalidFunction(String),
}

#[derive(Default, Clone)]
struct Model {
    rules: Vec<String>,
    functions: Vec<String>,
    symbols: BTreeMap<String, i128>,
}

impl Model {
    fn add_rule(&mut self, n: &str) -> Result<(), Refusal> {
        if self.rules.iter().any(|r| r == n) {
            return Err(Refusal::DuplicateRule(n.to_string()));
        }
        self.rules.push(n.to_string());
        Ok(())
    }
    fn add_function(&mut self, n: &str) -> Result<(), Refusal> {
        if !acceptable_function_name(n) {
            return Err(Refusal::InvalidFunction(n.to_string()));
        }
        if self.functions.iter().any(|f| f == n) {
            return Err(Refusal::DuplicateFunction(n.to_string()));
        }
        self.functions.push(n.to_string());
        Ok(())
    }
    fn apply(&mut self, c: &Call) -> Result<(), Refusal> {
        match c {
            Call::Rule(n) => self.add_rule(n),
            Call::Rules(ns) => {
                for n in ns {
                    self.add_rule(n)?; // the refusal names the first offending element
                }
                Ok(())
            }
            Call::Function(n) => self.add_function(n),
            Call::Functions(ns) => {
                for n in ns {
                    self.add_function(n)?;
                }
                Ok(())
            }
            Call::Symbol(n, v) => {
                self.symbols.insert(n.to_string(), *v);
                Ok(())
            }
            Call::Symbols(items) => {
                for (n, v) in items {
                    self.symbols.insert(n.to_string(), *v);
                }
                Ok(())
            }
        }
    }
}

fn apply_real(b: Builder, c: &Call, log: &Arc<Log>) -> Result<Builder, Error> {
    match c {
        Call::Rule(n) => b.with_rule(rule(n)),
        Call::Rules(ns) => b.with_rules(ns.iter().map(|n| rule(n)).collect::<Vec<_>>()),
        Call::Function(n) => b.with_function(tfn(n, log)),
        Call::Functions(ns) => b.with_functions(ns.iter().map(|n| Box::new(tfn(n, log)) as Box<dyn UserFunction + Send + Sync + 'static>).collect::<Vec<_>>()),
        Call::Symbol(n, v) => Ok(b.with_symbol(*n, sym_value(*v))),
        Call::Symbols(items) => {
            // both ways of making a symbol table: insert one by one, or From<iterator of pairs>
            let s = if items.len() % 2 == 1 {
                let mut s = Symbols::default();
                for (n, v) in items {
                    s.insert(*n, sym_value(*v));
                }
                s
            } else {
                // From keeps the last of repeated names, like repeated insert
                Symbols::from(items.iter().map(|(n, v)| (*n, sym_value(*v))).collect::<Vec<_>>())
            };
            b.with_symbols(s)
        }
    }
}

fn refusal_of(e: &Error) -> Option<Refusal> {
    match e {
        Error::DuplicateRuleName(n) => Some(Refusal::DuplicateRule(n.clone())),
        Error::DuplicateFunctionName(n) => Some(Refusal::DuplicateFunction(n.clone())),
        Error::InvalidFunctionName(n) => Some(Refusal::InvalidFunction(n.clone())),
        _ => None,
    }
}

/// Run a history against a fresh builder and the model; probe the built ruleset.
fn judge_history(ctx: &mut Ctx, calls: &[Call], probe_fns: &[&'static str], probe_syms: &[&'static str], family: &str) {
    ctx.begin(|| format!("{family}\t{calls:?}"));
    ctx.count();
    ctx.hit(&format!("family:{family}"));
    ctx.nontrivial(fnv(format!("{calls:?}").as_bytes()));
    let log = Arc::new(Log::default());
    let mut model = Model::default();
    let case = |extra: String| json!({"history": calls.iter().map(|c| format!("{c:?}")).collect::<Vec<_>>(), "detail": extra});
    let r = guard(|| {
        let mut b = Some(ruleset());
        let mut verdict: Option<(String, String)> = None;
        let mut refused_at = None;
        for (i, c) in calls.iter().enumerate() {
            let want = model.clone().apply(c);
            let got = apply_real(b.take().unwrap(), c, &log);
            match (want, got) {
                (Ok(()), Ok(nb)) => {
                    model.apply(c).unwrap();
                    b = Some(nb);
                }
                (Err(w), Err(e)) => {
                    if refusal_of(&e).as_ref() != Some(&w) {
                        verdict = Some((format!("wrong-refusal {}", call_kind(c)), format!("call #{i} {c:?}: expected {w:?}, got {e}")));
                    }
                    refused_at = Some(i);
                    break;
                }
                (Ok(()), Err(e)) => {
                    verdict = Some((format!("refused-a-valid-call {}", call_kind(c)), format!("call #{i} {c:?} refused: {e}")));
                    break;
                }
                (Err(w), Ok(_)) => {
                    verdict = Some((format!("accepted-an-invalid-call {} {}", call_kind(c), refusal_kind(&w)), format!("call #{i} {c:?} accepted, expected {w:?}")));
                    break;
                }
            }
        }
        (b, verdict, refused_at)
    });
    let (b, verdict, refused_at) = match r {
        Ok(x) => x,
        Err(p) => {
            ctx.violation("C15 builder-panicked", p, case(String::new()));
            return;
        }
    };
    if let Some((class, what)) = verdict {
        ctx.violation(format!("C15 {class}"), what, case(String::new()));
        return;
    }
    if refused_at.is_some() {
        ctx.hit("histories-ending-in-a-refusal");
        return; // the builder is consumed by a refusal; nothing to probe
    }
    ctx.hit("histories-built");
    // probe the built ruleset: add nothing more, evaluate probe expressions through a second
    // ruleset? No — probes must run against *this* ruleset, so they are rules added at the end
    // under names that cannot collide with the pools.
    let mut b = b.unwrap();
    for f in probe_fns {
        b = match b.with_rule(Rule::new(format!("__probe fn {f}"), BTreeMap::new(), Expr::func(*f, Expr::value(7)))) {
            Ok(b) => b,
            Err(e) => {
                ctx.violation("C15 probe-rule-refused", e.to_string(), case(String::new()));
                return;
            }
        };
    }
    for s in probe_syms {
        b = match b.with_rule(Rule::new(format!("__probe sym {s}"), BTreeMap::new(), Expr::symbol(*s))) {
            Ok(b) => b,
            Err(e) => {
                // probe names are pairwise different strings: refusing one is a wrong duplicate verdict
                ctx.violation("C15 probe-rule-refused", e.to_string(), case(String::new()));
                return;
            }
        };
    }
    let rs = b.build();
    let outs = match guard(|| block_on(rs.evaluate_value(&Value::None)).map(|v| v.into_iter().map(|o| (o.rule.name().to_string(), match o.value { Ok(v) => Obs::Val(v), Err(e) => classify(&e) })).collect::<Vec<_>>())) {
        Ok(Ok(o)) => o,
        other => {
            ctx.violation("C15 probe-evaluation-failed", format!("{:?}", other.map(|r| r.map(|v| v.len()))), case(String::new()));
            return;
        }
    };
    // 1. exactly the accepted rules, in the order added, each evaluating to its own name
    let n = model.rules.len();
    let names: Vec<&str> = outs.iter().take_while(|(k, _)| !k.starts_with("__probe")).map(|(k, _)| k.as_str()).collect();
    if names != model.rules.iter().map(|s| s.as_str()).collect::<Vec<_>>() {
        ctx.violation("C15 built-ruleset-rules-differ", format!("ruleset holds {names:?}, accepted were {:?}", model.rules), case(String::new()));
        return;
    }
    for (k, o) in outs.iter().take(n) {
        if !matches!(o, Obs::Val(Value::String(s)) if s == k) {
            ctx.violation("C15 rule-outcome-paired-with-wrong-rule", format!("rule {k} evaluated to {}", show_obs(o)), case(String::new()));
            return;
        }
    }
    // 2. exactly the accepted functions, each invocable under its own name
    for (i, f) in probe_fns.iter().enumerate() {
        let (_, o) = &outs[n + i];
        let accepted = model.functions.iter().any(|x| x == f);
        let ok = if accepted {
            matches!(o, Obs::Val(Value::Vec(v)) if v.len() == 2 && v[0] == Value::String(f.to_string()) && v[1] == Value::Int(7))
        } else {
            matches!(o, Obs::Err { pay: Pay::Name(x), cls: c, .. } if x == f && *c == crate::refeval::cls::UNKNOWN_FN)
        };
        ctx.hit(if accepted { "probe:function-present" } else { "probe:function-absent" });
        if !ok {
            ctx.violation(format!("C15 built-ruleset-functions-differ ({})", if accepted { "accepted function not invocable under its name" } else { "function present that was never accepted" }), format!("function {f}: {}", show_obs(o)), case(String::new()));
            return;
        }
    }
    // 3. symbols: the most recently registered value
    for (i, s) in probe_syms.iter().enumerate() {
        let (_, o) = &outs[n + probe_fns.len() + i];
        let ok = match model.symbols.get(*s) {
            Some(v) => matches!(o, Obs::Val(x) if crate::refeval::same(x, &sym_value(*v))),
            None => matches!(o, Obs::Err { pay: Pay::Name(x), cls: c, .. } if x == s && *c == crate::refeval::cls::INVALID_SYMBOL),
        };
        ctx.hit(if model.symbols.contains_key(*s) { "probe:symbol-present" } else { "probe:symbol-absent" });
        if !ok {
            ctx.violation("C15 symbol-does-not-resolve-to-latest-value", format!("symbol {s}: {} (model: {:?})", show_obs(o), model.symbols.get(*s)), case(String::new()));
            return;
        }
    }
    ctx.sample(family, || json!({"history": calls.iter().map(|c| format!("{c:?}")).collect::<Vec<_>>(), "rules": model.rules, "functions": model.functions, "symbols": model.symbols}));
}

fn call_kind(c: &Call) -> &'static str {
    match c {
        Call::Rule(_) => "with_rule",
        Call::Rules(_) => "with_rules",
        Call::Function(_) => "with_function",
        Call::Functions(_) => "with_functions",
        Call::Symbol(..) => "with_symbol",
        Call::Symbols(_) => "with_symbols",
    }
}

fn refusal_kind(r: &Refusal) -> &'static str {
    match r {
        Refusal::DuplicateRule(_) => "duplicate-rule",
        Refusal::DuplicateFunction(_) => "duplicate-function",
        Refusal::InvalidFunction(_) => "invalid-function-name",
    }
}

fn alphabet() -> Vec<Call> {
    vec![
        Call::Rule("a"), Call::Rule("b"), Call::Rules(vec!["a", "b"]), Call::Rules(vec!["b", "b"]), Call::Rules(vec!["c", "a"]),
        Call::Function("f"), Call::Function("g"), Call::Functions(vec!["f", "g"]), Call::Functions(vec!["g", "g"]), Call::Functions(vec!["h", "f"]),
        Call::Symbol("s", 1), Call::Symbol("s", -1), Call::Symbol("t", 1), Call::Symbols(vec![("s", 3)]), Call::Symbols(vec![("t", -1), ("s", 5)]),
    ]
}

fn candidate_names() -> Vec<String> {
    let alpha: Vec<char> = "abzAZ019_ -.(\0éßαж中\u{301}\u{1F600}\u{200d}$#/\\\"'+=:,;@!?~\t\n\u{a0}xiIfd".chars().collect();
    let mut v: Vec<String> = vec![String::new()];
    for a in &alpha {
        v.push(a.to_string());
        for b in &alpha {
            v.push(format!("{a}{b}"));
        }
    }
    for k in RESERVED {
        v.push(k.to_string());
        v.push(format!("{k}x"));
        v.push(format!("{k}_"));
        v.push(format!("_{k}"));
        v.push(format!("{k}1"));
        v.push(k.to_uppercase());
        v.push(k[..k.len() - 1].to_string());
        v.push(format!(" {k}"));
    }
    for w in ["_", "__", "_1", "_a", "_-", "_ ", "_.", "_(", "_a-b", "_é", "_\u{301}", "1a", "a1", "a-b", "a b", "a.b", "fake_id", "FakeId", "é", "éa", "aé", "中文", "a\u{301}", "\u{301}a", "x\0", "value", "starts_with", "keys", "i5", "f1", "d2", "0x1", "facts"] {
        v.push(w.to_string());
    }
    v.sort();
    v.dedup();
    v
}

fn names(ctx: &mut Ctx) {
    for name in candidate_names() {
        if !ctx.mine() {
            continue;
        }
        let st = leak(&name);
        ctx.begin(|| format!("name\t{name:?}"));
        ctx.count();
        ctx.nontrivial(fnv(name.as_bytes()));
        let want = acceptable_function_name(&name);
        ctx.hit(if want { "names:acceptable" } else if RESERVED.contains(&name.as_str()) { "names:reserved" } else { "names:ill-formed" });
        let log = Arc::new(Log::default());
        for via in ["with_function", "with_functions"] {
            let got = guard(|| {
                if via == "with_function" { ruleset().with_function(tfn(st, &log)).map(|_| ()) } else { ruleset().with_functions(vec![Box::new(tfn(st, &log)) as Box<dyn UserFunction + Send + Sync + 'static>]).map(|_| ()) }
            });
            let class = |n: &str| -> &'static str {
                if n.is_empty() {
                    "empty"
                } else if n.starts_with('_') {
                    "leading-underscore"
                } else if n.chars().next().map(|c| c.is_ascii_digit()).unwrap_or(false) {
                    "leading-digit"
                } else if !n.is_ascii() {
                    "non-ascii"
                } else {
                    "ascii"
                }
            };
            match (want, got) {
                (_, Err(p)) => ctx.violation(format!("C15 builder-panicked {via}"), p, json!({"name": name})),
                (true, Ok(Ok(()))) => {}
                (false, Ok(Err(Error::InvalidFunctionName(n)))) if n == name => {}
                (true, Ok(Err(e))) => ctx.violation(format!("C15 well-formed-name-refused {} ({via})", class(&name)), format!("{name:?}: {e}"), json!({"name": name})),
                (false, Ok(Ok(()))) => ctx.violation(format!("C15 ill-formed-or-reserved-name-accepted {} ({via})", if RESERVED.contains(&name.as_str()) { "reserved-word" } else { class(&name) }), format!("function name {name:?} was accepted"), json!({"name": name})),
                (false, Ok(Err(e))) => ctx.violation(format!("C15 wrong-refusal ({via})"), format!("{name:?}: {e}"), json!({"name": name})),
            }
        }
        // an acceptable name must also be refused the second time, naming it
        if want {
            ctx.count();
            let got = guard(|| ruleset().with_function(tfn(st, &log)).and_then(|b| b.with_function(tfn(st, &log))).map(|_| ()));
            if !matches!(&got, Ok(Err(Error::DuplicateFunctionName(n))) if *n == name) {
                ctx.violation("C15 duplicate-function-accepted", format!("{name:?} twice: {:?}", got.map(|r| r.map_err(|e| e.to_string()))), json!({"name": name}));
            }
        }
    }
}

/// every Unicode scalar value as the first and as the second character of a function name
fn every_character(ctx: &mut Ctx) {
    ctx.align();
    let log = Arc::new(Log::default());
    for cp in 0u32..0x11_0000 {
        let Some(c) = char::from_u32(cp) else { continue };
        if !ctx.mine() {
            continue;
        }
        for name in [c.to_string(), format!("x{c}")] {
            let want = acceptable_function_name(&name);
            ctx.count();
            let st = leak(&name);
            let got = guard(|| ruleset().with_function(tfn(st, &log)).map(|_| ()));
            let block = |c: char| -> &'static str {
                if c.is_ascii() { "ascii" } else if c.is_alphabetic() { "alphabetic" } else if c.is_numeric() { "numeric" } else if c.is_whitespace() { "whitespace" } else if c.is_control() { "control" } else { "other" }
            };
            let pos = if name.chars().count() == 1 { "first" } else { "second" };
            match (want, got) {
                (true, Ok(Ok(()))) => ctx.hit("every-character:accepted"),
                (false, Ok(Err(Error::InvalidFunctionName(n)))) if n == name => ctx.hit("every-character:refused"),
                (_, Err(p)) => ctx.violation(format!("C15 builder-panicked with_function ({} {pos} character)", block(c)), p, json!({"name": name, "code_point": format!("U+{cp:04X}")})),
                (true, Ok(Err(e))) => ctx.violation(format!("C15 well-formed-name-refused ({} {pos} character)", block(c)), format!("{name:?} (U+{cp:04X}): {e}"), json!({"name": name, "code_point": format!("U+{cp:04X}")})),
                (false, Ok(Ok(()))) => ctx.violation(format!("C15 ill-formed-name-accepted ({} {pos} character)", block(c)), format!("function name {name:?} (U+{cp:04X}) was accepted"), json!({"name": name, "code_point": format!("U+{cp:04X}")})),
                (false, Ok(Err(e))) => ctx.violation("C15 wrong-refusal (with_function)".to_string(), format!("{name:?}: {e}"), json!({"name": name})),
            }
        }
    }
}

fn run(ctx: &mut Ctx) {
    every_character(ctx);
    let alpha = alphabet();
    let probe_fns = ["f", "g", "h", "F"];
    let probe_syms = ["s", "t", "S"];
    let max_len = ctx.tier.of(4, 5);
    let n = alpha.len();
    for len in 0..=max_len {
        for code in 0..n.pow(len as u32) {
            if !ctx.mine() {
                continue;
            }
            let mut c = code;
            let calls: Vec<Call> = (0..len)
                .map(|_| {
                    let x = alpha[c % n].clone();
                    c /= n;
                    x
                })
                .collect();
            judge_history(ctx, &calls, &probe_fns, &probe_syms, "all-short-histories");
        }
    }
    // longer random histories over a bigger name pool; behind a refusal the accepted prefix is
    // re-created and exploration continues with another call
    let mut rng: Rng = ctx.rng.clone();
    let rn = ["r1", "r2", "r3", "R1", "r 1", ""];
    let fnn = ["fa", "fb", "fc", "_fd", "Fa", "if", "1x", "fa"];
    let sn = ["s", "t", "u", "S"];
    for _ in 0..ctx.tier.of(3_000, 60_000) {
        let len = 5 + rng.below(26);
        let mut calls: Vec<Call> = vec![];
        let mut model = Model::default();
        for _ in 0..len {
            let c = match rng.below(6) {
                0 => Call::Rule(rn[rng.below(rn.len())]),
                1 => Call::Rules((0..1 + rng.below(3)).map(|_| rn[rng.below(rn.len())]).collect()),
                2 => Call::Function(fnn[rng.below(fnn.len())]),
                3 => Call::Functions((0..1 + rng.below(3)).map(|_| fnn[rng.below(fnn.len())]).collect()),
                4 => Call::Symbol(sn[rng.below(sn.len())], rng.range(-10, 100) as i128),
                _ => Call::Symbols((0..1 + rng.below(3)).map(|_| (sn[rng.below(sn.len())], rng.range(-10, 100) as i128)).collect()),
            };
            if model.clone().apply(&c).is_err() {
                // judge the history that ends in this refusal, then carry on without the refused call
                let mut h = calls.clone();
                h.push(c);
                judge_history(ctx, &h, &["fa", "fb", "fc", "_fd", "Fa"], &sn, "random-long-histories-refusal");
                continue;
            }
            model.apply(&c).unwrap();
            calls.push(c);
        }
        judge_history(ctx, &calls, &["fa", "fb", "fc", "_fd", "Fa", "if"], &sn, "random-long-histories");
    }
    // many distinct names (dozens of rules, functions and symbols in one builder): prefixes of each other,
    // case variants, trailing whitespace, composed vs decomposed accents, long names
    let long_a: &'static str = leak(&"a".repeat(300));
    let long_b: &'static str = leak(&format!("{}b", "a".repeat(299)));
    let rn2: Vec<&'static str> = vec!["r", "r1", "r10", "r100", "r2", "R1", "r1 ", " r1", "r\u{e9}", "re\u{301}", "rule", "rules", "", " ", long_a, long_b, "x", "y", "z", "r3", "r4", "r5", "r6", "r7", "r8", "r9", "r11", "r12"];
    let fn2: Vec<&'static str> = vec!["f", "f1", "f10", "f2", "fa", "fab", "fabc", "F1", "f\u{e9}", "fe\u{301}", "g", "g_", "_g", "g1_", long_a, long_b, "h1", "h2", "h3", "h4", "h5", "h6", "h7", "h8", "h9", "in", "int", "inty", "1f", "f-1"];
    let mut sn2: Vec<&'static str> = vec!["s", "s1", "s10", "S", "s ", "t", "u", "v", "w", long_a, ":s", "::s", ":t", "s:"];
    for i in 0..30 {
        sn2.push(leak(&format!("sym{i}")));
    }
    for _ in 0..ctx.tier.of(400, 4_000) {
        let len = 30 + rng.below(90);
        let mut calls: Vec<Call> = vec![];
        let mut model = Model::default();
        for _ in 0..len {
            let c = match rng.below(6) {
                0 => Call::Rule(rn2[rng.below(rn2.len())]),
                1 => Call::Rules((0..1 + rng.below(4)).map(|_| rn2[rng.below(rn2.len())]).collect()),
                2 => Call::Function(fn2[rng.below(fn2.len())]),
                3 => Call::Functions((0..1 + rng.below(4)).map(|_| fn2[rng.below(fn2.len())]).collect()),
                4 => Call::Symbol(sn2[rng.below(sn2.len())], rng.range(-10, 1000) as i128),
                _ => {
                    let cap = if rng.chance(1, 3) { 60 } else { 12 };
                    let n = 1 + rng.below(cap);
                    Call::Symbols((0..n).map(|_| (sn2[rng.below(sn2.len())], rng.range(-10, 1000) as i128)).collect())
                }
            };
            if model.clone().apply(&c).is_err() {
                if rng.chance(1, 4) {
                    let mut h = calls.clone();
                    h.push(c);
                    judge_history(ctx, &h, &fn2, &sn2, "many-names-refusal");
                }
                continue;
            }
            model.apply(&c).unwrap();
            calls.push(c);
        }
        judge_history(ctx, &calls, &fn2, &sn2, "many-names");
    }
    // big batches: hundreds to thousands of rules / functions / symbols in one call, names in shuffled (not sorted) order
    let pool: Vec<&'static str> = (0..6_000).map(|i| leak(&format!("n{:05}", (i * 7919) % 100_000))).collect();
    for round in 0..ctx.tier.of(3, 24) {
        let size = *rng.pick(&[257usize, 300, 700, 1_500, 4_000]);
        let mut names_: Vec<&'static str> = pool.clone();
        rng.shuffle(&mut names_);
        names_.truncate(size);
        let probe: Vec<&'static str> = vec![names_[0], names_[size / 2], names_[size - 1], "n_absent"];
        let mut with_dup = names_.clone();
        let (i, j) = (rng.below(size / 2), size / 2 + rng.below(size / 2));
        with_dup[j] = with_dup[i];
        let histories: Vec<Vec<Call>> = vec![
            vec![Call::Rules(names_.clone())],
            vec![Call::Rule("first"), Call::Rules(names_.clone()), Call::Rule("last")],
            vec![Call::Rules(names_[..size / 2].to_vec()), Call::Rules(names_[size / 2..].to_vec())],
            vec![Call::Rules(with_dup.clone())],
            vec![Call::Rule(names_[size - 1]), Call::Rules(names_.clone())],
            vec![Call::Rules(names_.clone()), Call::Rule(names_[size / 3])],
            vec![Call::Functions(names_[..size.min(1_500)].to_vec()), Call::Rules(names_.clone())],
            vec![Call::Functions(with_dup[..].to_vec())],
            vec![Call::Symbols(names_.iter().enumerate().map(|(k, n)| (*n, k as i128)).collect()), Call::Symbols(names_.iter().rev().take(size / 2).enumerate().map(|(k, n)| (*n, -(k as i128))).collect())],
        ];
        for (k, h) in histories.iter().enumerate() {
            if (round * 9 + k) % 16 != ctx.shard % 16 && ctx.tier == Tier::Quick {
                continue;
            }
            judge_history(ctx, h, &probe, &probe, "big-batches");
        }
    }
    ctx.rng = rng;
    names(ctx);
}

fn finish(m: &Merged, tier: Tier) -> Finish {
    let mut f = Finish {
        rule: "histories of builder calls (with_rule / with_rules / with_function / with_functions / with_symbol / with_symbols) are replayed against a fresh builder and a 40-line model (ordered accepted rule names, set of accepted function names, last-writer-wins symbol map; function names must be `_`|XID_start then XID_continue* and not one of the 38 reserved words); every refusal must name the first offending element; every ruleset that gets built is probed: outcome names in order, every function name of the pool called through a probe rule (a Tag function returns its own name), every symbol read (symbol values of every kind, incl. none / false / 0 / empty string / empty collections). Batches of 257-4000 shuffled names through with_rules / with_functions / with_symbols. Plus ~3,000 candidate function names (all 1-2 character strings over a 42-symbol alphabet, reserved words +- one character, near-identifiers) through with_function and with_functions. Every case is non-trivial; distinct by history / name".into(),
        exhaustive: true,
        exhaustive_part: format!("all histories of length <= {} over a 15-call alphabet; all candidate names", tier.of(4, 5)),
        ..Default::default()
    };
    f.floors.push(floor(format!("histories built and probed: {}", m.c("histories-built")), m.c("histories-built") >= 5_000));
    f.floors.push(floor(format!("histories ending in a refusal: {}", m.c("histories-ending-in-a-refusal")), m.c("histories-ending-in-a-refusal") >= 5_000));
    for k in ["names:acceptable", "names:reserved", "names:ill-formed"] {
        f.floors.push(floor(format!("{k}: {}", m.c(k)), m.c(k) >= 38));
    }
    for k in ["probe:function-present", "probe:function-absent", "probe:symbol-present", "probe:symbol-absent"] {
        f.floors.push(floor(format!("{k}: {}", m.c(k)), m.c(k) >= 1_000));
    }
    f.floors.push(floor(format!("names made of every Unicode scalar value as first / second character: {} accepted, {} refused", m.c("every-character:accepted"), m.c("every-character:refused")), m.c("every-character:accepted") + m.c("every-character:refused") >= 2_200_000));
    f.extras.insert("families".into(), json!(m.prefix_map("family:")));
    f.extras.insert("names".into(), json!(m.prefix_map("names:")));
    f.extras.insert("probes".into(), json!(m.prefix_map("probe:")));
    f.assumptions = vec!["'well-formed identifier' is `_` or XID_start followed by XID_continue* (unicode-xid), the reserved list is the 34 keyword tokens of the DSL plus starts / ends / key / val".into()];
    f
}
