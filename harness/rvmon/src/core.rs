//! Monitor plumbing shared by every property: per-shard context (counters, case signatures,
//! samples, violations), panic capture, shard result files, and the driver that runs the shards
//! as child processes, merges what they observed, applies known_findings.json and writes evidence.

use crate::rng::{fnv, Rng};
use serde_json::{json, Map, Value as J};
use std::cell::RefCell;
use std::collections::BTreeMap;
use std::io::Write;
use std::panic::{catch_unwind, AssertUnwindSafe};
use std::path::{Path, PathBuf};
use std::process::{Command, Stdio};
use std::time::{Duration, Instant};

#[derive(Clone, Copy, PartialEq, Eq, Debug)]
pub enum Tier {
    Quick,
    Thorough,
}

impl Tier {
    pub fn name(self) -> &'static str {
        match self {
            Tier::Quick => "quick",
            Tier::Thorough => "thorough",
        }
    }
    pub fn parse(s: &str) -> Option<Tier> {
        match s {
            "quick" => Some(Tier::Quick),
            "thorough" => Some(Tier::Thorough),
            _ => None,
        }
    }
    /// pick by tier
    pub fn of<T>(self, quick: T, thorough: T) -> T {
        match self {
            Tier::Quick => quick,
            Tier::Thorough => thorough,
        }
    }
}

// ---------------------------------------------------------------------------------------------
// panic capture

thread_local! {
    static LAST_PANIC: RefCell<Option<String>> = const { RefCell::new(None) };
}

pub fn install_panic_hook() {
    std::panic::set_hook(Box::new(|info| {
        let loc = info
            .location()
            .map(|l| format!("{}:{}", l.file(), l.line()))
            .unwrap_or_else(|| "?".into());
        let msg = if let Some(s) = info.payload().downcast_ref::<&str>() {
            (*s).to_string()
        } else if let Some(s) = info.payload().downcast_ref::<String>() {
            s.clone()
        } else {
            "<non-string panic payload>".to_string()
        };
        LAST_PANIC.with(|p| *p.borrow_mut() = Some(format!("{msg} @ {loc}")));
    }));
}

/// Run `f`, turning a panic into Err("message @ file:line").
pub fn guard<T>(f: impl FnOnce() -> T) -> Result<T, String> {
    match catch_unwind(AssertUnwindSafe(f)) {
        Ok(v) => Ok(v),
        Err(_) => Err(LAST_PANIC
            .with(|p| p.borrow_mut().take())
            .unwrap_or_else(|| "panic (no message captured)".into())),
    }
}

/// "message @ /a/b/src/x.rs:12" -> "x.rs" style location class used in signatures: file name
/// without line (line numbers move under benign edits; the file does not).
pub fn panic_site(p: &str) -> String {
    match p.rsplit_once(" @ ") {
        Some((_, loc)) => {
            let file = loc.rsplit_once(':').map(|x| x.0).unwrap_or(loc);
            let file = file.rsplit('/').next().unwrap_or(file);
            file.to_string()
        }
        None => "?".into(),
    }
}

// ---------------------------------------------------------------------------------------------
// shard context

pub struct Violation {
    pub sig: String,
    pub what: String,
    pub case: J,
    pub count: u64,
}

pub struct Ctx {
    pub prop: String,
    pub tier: Tier,
    pub seed: u64,
    pub shard: usize,
    pub nshards: usize,
    pub rng: Rng,
    pub evaluations: u64,
    hashes: Vec<u64>,
    pub counters: BTreeMap<String, u64>,
    pub samples: BTreeMap<String, Vec<J>>,
    pub violations: BTreeMap<String, Violation>,
    paranoid: Option<std::fs::File>,
    pub replay_sig: Option<String>,
    enum_index: u64,
    compact_at: usize,
}

pub const SAMPLES_PER_KEY: usize = 3;

impl Ctx {
    pub fn new(prop: &str, tier: Tier, seed: u64, shard: usize, nshards: usize) -> Ctx {
        let paranoid = std::env::var("RVMON_PARANOID").ok().map(|p| {
            std::fs::File::create(p).expect("paranoid file")
        });
        Ctx {
            prop: prop.to_string(),
            tier,
            seed,
            shard,
            nshards,
            rng: Rng::new(seed, prop, shard as u64),
            evaluations: 0,
            hashes: Vec::new(),
            counters: BTreeMap::new(),
            samples: BTreeMap::new(),
            violations: BTreeMap::new(),
            paranoid,
            replay_sig: std::env::var("RVMON_REPLAY_SIG").ok(),
            enum_index: 0,
            compact_at: 6_000_000,
        }
    }

    /// Partition an enumeration across shards: returns true for the items this shard owns.
    pub fn mine(&mut self) -> bool {
        let i = self.enum_index;
        self.enum_index += 1;
        (i % self.nshards as u64) as usize == self.shard
    }

    /// Restart the enumeration counter. Every deterministic enumeration block calls this first, so that
    /// all shards partition the block identically whatever (seed-dependent) work preceded it.
    pub fn align(&mut self) {
        self.enum_index = 0;
    }

    /// Announce the case about to run (only formatted in paranoid mode, where it is flushed to a
    /// file so that a process abort can be attributed to a case).
    pub fn begin(&mut self, desc: impl FnOnce() -> String) {
        if let Some(f) = self.paranoid.as_mut() {
            let d = desc();
            let _ = f.write_all(d.replace('\n', "\\n").as_bytes());
            let _ = f.write_all(b"\n");
            let _ = f.flush();
        }
    }

    pub fn count(&mut self) {
        self.evaluations += 1;
    }

    pub fn nontrivial(&mut self, h: u64) {
        self.hashes.push(h);
        if self.hashes.len() >= self.compact_at {
            self.hashes.sort_unstable();
            self.hashes.dedup();
            // amortised: next compaction only after the set could have doubled
            self.compact_at = (self.hashes.len() * 2).max(6_000_000);
        }
    }

    pub fn nontrivial_str(&mut self, s: &str) {
        self.nontrivial(fnv(s.as_bytes()));
    }

    pub fn hit(&mut self, key: &str) {
        match self.counters.get_mut(key) {
            Some(c) => *c += 1,
            None => {
                self.counters.insert(key.to_string(), 1);
            }
        }
    }

    pub fn add(&mut self, key: &str, n: u64) {
        *self.counters.entry(key.to_string()).or_insert(0) += n;
    }

    pub fn want_sample(&self, key: &str) -> bool {
        self.samples.get(key).map(|v| v.len()).unwrap_or(0) < SAMPLES_PER_KEY
    }

    pub fn sample(&mut self, key: &str, v: impl FnOnce() -> J) {
        if self.want_sample(key) {
            self.samples.entry(key.to_string()).or_default().push(v());
        }
    }

    pub fn violation(&mut self, sig: impl Into<String>, what: impl Into<String>, case: J) {
        let sig = sig.into();
        if let Some(rs) = &self.replay_sig {
            if *rs == sig {
                println!("REPLAY-HIT signature={sig}\n  what: {}\n  case: {}", what.into(), case);
                self.violations.entry(sig.clone()).or_insert(Violation { sig, what: String::new(), case: J::Null, count: 0 }).count += 1;
                return;
            }
        }
        match self.violations.get_mut(&sig) {
            Some(v) => v.count += 1,
            None => {
                self.violations.insert(sig.clone(), Violation { sig, what: what.into(), case, count: 1 });
            }
        }
    }

    fn finish(mut self, out_json: &Path) {
        self.hashes.sort_unstable();
        self.hashes.dedup();
        let bin = out_json.with_extension("bin");
        let mut bytes = Vec::with_capacity(self.hashes.len() * 8);
        for h in &self.hashes {
            bytes.extend_from_slice(&h.to_le_bytes());
        }
        std::fs::write(&bin, bytes).expect("write hashes");
        let viol: Vec<J> = self
            .violations
            .values()
            .map(|v| json!({"sig": v.sig, "what": v.what, "case": v.case, "count": v.count}))
            .collect();
        let j = json!({
            "shard": self.shard,
            "evaluations": self.evaluations,
            "counters": self.counters,
            "samples": self.samples,
            "violations": viol,
        });
        std::fs::write(out_json, serde_json::to_vec(&j).unwrap()).expect("write shard result");
    }
}

// ---------------------------------------------------------------------------------------------
// what a property module provides

pub struct Floor {
    pub what: String,
    pub ok: bool,
}

pub fn floor(what: impl Into<String>, ok: bool) -> Floor {
    Floor { what: what.into(), ok }
}

#[derive(Default)]
pub struct Finish {
    pub rule: String,
    pub exhaustive: bool,
    pub exhaustive_part: String,
    pub floors: Vec<Floor>,
    pub extras: Map<String, J>,
    pub assumptions: Vec<String>,
    /// violations that only show across the whole run (e.g. two readings of one ambiguity mixed)
    pub violations: Vec<Violation>,
}

pub struct Merged {
    pub evaluations: u64,
    pub distinct_nontrivial: u64,
    pub counters: BTreeMap<String, u64>,
    pub samples: BTreeMap<String, Vec<J>>,
    pub violations: BTreeMap<String, Violation>,
}

impl Merged {
    pub fn c(&self, key: &str) -> u64 {
        self.counters.get(key).copied().unwrap_or(0)
    }
    /// number of counters with this prefix that are non-zero
    pub fn prefix_count(&self, prefix: &str) -> u64 {
        self.counters.range(prefix.to_string()..).take_while(|(k, _)| k.starts_with(prefix)).filter(|(_, v)| **v > 0).count() as u64
    }
    pub fn prefix_map(&self, prefix: &str) -> Map<String, J> {
        let mut m = Map::new();
        for (k, v) in self.counters.range(prefix.to_string()..).take_while(|(k, _)| k.starts_with(prefix)) {
            m.insert(k[prefix.len()..].to_string(), json!(v));
        }
        m
    }
}

pub struct Property {
    pub id: &'static str,
    /// run one shard
    pub run: fn(&mut Ctx),
    /// judge merged coverage; produce evidence extras
    pub finish: fn(&Merged, Tier) -> Finish,
    /// number of shards (processes) for a tier
    pub shards: fn(Tier) -> usize,
    /// expected wall seconds per shard (watchdog = 6x + 120 s)
    pub expect_s: fn(Tier) -> u64,
}

// ---------------------------------------------------------------------------------------------
// driver

pub fn verif_dir() -> PathBuf {
    // rvmon lives in /verif/harness/target/<profile>/rvmon
    if let Ok(d) = std::env::var("VERIF_DIR") {
        return PathBuf::from(d);
    }
    PathBuf::from("/verif")
}

fn out_dir() -> PathBuf {
    let d = match std::env::var("RVMON_OUT") {
        Ok(d) => PathBuf::from(d),
        Err(_) => verif_dir().join("harness/target/rvmon-out"),
    };
    std::fs::create_dir_all(&d).ok();
    d
}

pub fn seed_from_env() -> u64 {
    std::env::var("VERIF_SEED").ok().and_then(|s| s.trim().parse::<i64>().ok()).map(|v| v as u64).unwrap_or(1)
}

pub fn profile_name() -> String {
    std::env::var("RVMON_PROFILE").unwrap_or_else(|_| "verif".into())
}

pub fn run_shard(p: &Property, tier: Tier, seed: u64, shard: usize, nshards: usize, out: &Path) {
    install_panic_hook();
    let mut ctx = Ctx::new(p.id, tier, seed, shard, nshards);
    // a panic that escapes the per-case guards is a bug of the harness itself: say so and die
    if let Err(e) = guard(|| (p.run)(&mut ctx)) {
        eprintln!("harness panic in {} shard {shard}: {e}", p.id);
        std::process::exit(101);
    }
    ctx.finish(out);
}

enum ChildEnd {
    Ok,
    Crashed(String),
    TimedOut,
}

fn wait_children(children: &mut Vec<(usize, std::process::Child)>, deadline: Instant) -> BTreeMap<usize, ChildEnd> {
    let mut ends = BTreeMap::new();
    while !children.is_empty() {
        let mut i = 0;
        while i < children.len() {
            match children[i].1.try_wait() {
                Ok(Some(st)) => {
                    let (idx, _) = children.remove(i);
                    if st.success() {
                        ends.insert(idx, ChildEnd::Ok);
                    } else {
                        ends.insert(idx, ChildEnd::Crashed(format!("{st}")));
                    }
                }
                Ok(None) => i += 1,
                Err(e) => {
                    let (idx, _) = children.remove(i);
                    ends.insert(idx, ChildEnd::Crashed(format!("wait error {e}")));
                }
            }
        }
        if Instant::now() > deadline {
            for (idx, mut c) in children.drain(..) {
                let _ = c.kill();
                let _ = c.wait();
                ends.insert(idx, ChildEnd::TimedOut);
            }
            break;
        }
        std::thread::sleep(Duration::from_millis(20));
    }
    ends
}

pub struct KnownFinding {
    pub property: String,
    pub status: String,
    pub signature: String,
    pub what: String,
}

pub fn load_known() -> Vec<KnownFinding> {
    let p = verif_dir().join("known_findings.json");
    let Ok(s) = std::fs::read_to_string(&p) else { return vec![] };
    let Ok(j) = serde_json::from_str::<J>(&s) else {
        eprintln!("warning: known_findings.json does not parse; ignoring it");
        return vec![];
    };
    let mut v = vec![];
    let arr = j.get("findings").and_then(|f| f.as_array()).cloned().or_else(|| j.as_array().cloned()).unwrap_or_default();
    for e in arr {
        v.push(KnownFinding {
            property: e["property"].as_str().unwrap_or("").to_string(),
            status: e["status"].as_str().unwrap_or("").to_string(),
            signature: e["signature"].as_str().unwrap_or("").to_string(),
            what: e["what"].as_str().unwrap_or("").to_string(),
        });
    }
    v
}

/// Run a property: returns the process exit code (0 held, 1 violation, 2 inconclusive).
pub fn drive(p: &Property, tier: Tier) -> i32 {
    let t0 = Instant::now();
    let seed = seed_from_env();
    let n = (p.shards)(tier);
    let exe = std::env::current_exe().expect("current_exe");
    let out = out_dir();
    let mut inconclusive: Vec<String> = vec![];

    let shard_path = |i: usize| out.join(format!("{}-{}-{}.json", p.id, tier.name(), i));
    for i in 0..n {
        let _ = std::fs::remove_file(shard_path(i));
        let _ = std::fs::remove_file(shard_path(i).with_extension("bin"));
    }
    let spawn = |i: usize, paranoid: Option<&Path>| {
        let mut c = Command::new(&exe);
        c.arg("shard").arg(p.id).arg(tier.name()).arg(seed.to_string()).arg(i.to_string()).arg(n.to_string()).arg(shard_path(i));
        c.stdin(Stdio::null());
        match std::fs::File::create(shard_path(i).with_extension("stderr")) {
            Ok(f) => {
                c.stderr(f);
            }
            Err(_) => {
                c.stderr(Stdio::null());
            }
        }
        if let Some(pp) = paranoid {
            c.env("RVMON_PARANOID", pp);
        }
        c.spawn().expect("spawn shard")
    };
    let watchdog = Duration::from_secs((p.expect_s)(tier) * 6 + 120);
    let mut children: Vec<(usize, std::process::Child)> = (0..n).map(|i| (i, spawn(i, None))).collect();
    let ends = wait_children(&mut children, Instant::now() + watchdog);

    let mut abort_violations: Vec<Violation> = vec![];
    for (i, end) in &ends {
        match end {
            ChildEnd::Ok => {}
            ChildEnd::TimedOut => inconclusive.push(format!("shard {i} exceeded the watchdog ({} s)", watchdog.as_secs())),
            ChildEnd::Crashed(st) => {
                // Re-run this shard in paranoid mode to attribute the abort to a case.
                let pfile = out.join(format!("{}-{}-{}.paranoid", p.id, tier.name(), i));
                let mut again = vec![(*i, spawn(*i, Some(&pfile)))];
                let ends2 = wait_children(&mut again, Instant::now() + watchdog * 2);
                match ends2.get(i) {
                    Some(ChildEnd::Crashed(st2)) if st2.contains("exit status: 101") => {
                        // exit code 101 is a Rust panic that escaped the per-case guards: a bug of the harness, not an observation
                        let err = std::fs::read_to_string(shard_path(*i).with_extension("stderr")).unwrap_or_default();
                        inconclusive.push(format!("shard {i}: {}", err.lines().last().unwrap_or("harness panic (no message)")));
                    }
                    Some(ChildEnd::Crashed(st2)) => {
                        let log = std::fs::read_to_string(&pfile).unwrap_or_default();
                        let last = log.lines().last().unwrap_or("").to_string();
                        if last.is_empty() {
                            let err = std::fs::read_to_string(shard_path(*i).with_extension("stderr")).unwrap_or_default();
                            inconclusive.push(format!("shard {i} died ({st2}) before announcing any case: {}", err.lines().last().unwrap_or("")));
                        } else {
                            // the case line is "<signature-hint>\t<description>"
                            let (hint, desc) = last.split_once('\t').unwrap_or(("case", &last));
                            abort_violations.push(Violation {
                                sig: format!("{} abort {}", p.id, hint),
                                what: format!("process died ({st2}) while executing: {desc}"),
                                case: json!({"shard": i, "status": st2, "case": desc}),
                                count: 1,
                            });
                        }
                    }
                    Some(ChildEnd::Ok) => inconclusive.push(format!("shard {i} died ({st}) but a paranoid re-run completed; not attributable")),
                    _ => inconclusive.push(format!("shard {i} died ({st}); paranoid re-run timed out")),
                }
                let _ = std::fs::remove_file(&pfile);
            }
        }
    }

    // merge
    let mut m = Merged { evaluations: 0, distinct_nontrivial: 0, counters: BTreeMap::new(), samples: BTreeMap::new(), violations: BTreeMap::new() };
    let mut all_hashes: Vec<u64> = vec![];
    for i in 0..n {
        let path = shard_path(i);
        let Ok(bytes) = std::fs::read(&path) else {
            if !inconclusive.iter().any(|s| s.contains(&format!("shard {i} "))) && !abort_violations.iter().any(|v| v.case["shard"] == json!(i)) {
                inconclusive.push(format!("shard {i} left no result file"));
            }
            continue;
        };
        let j: J = serde_json::from_slice(&bytes).expect("shard json");
        m.evaluations += j["evaluations"].as_u64().unwrap_or(0);
        if let Some(c) = j["counters"].as_object() {
            for (k, v) in c {
                *m.counters.entry(k.clone()).or_insert(0) += v.as_u64().unwrap_or(0);
            }
        }
        if let Some(s) = j["samples"].as_object() {
            for (k, v) in s {
                let e = m.samples.entry(k.clone()).or_default();
                for x in v.as_array().cloned().unwrap_or_default() {
                    if e.len() < 5 {
                        e.push(x);
                    }
                }
            }
        }
        for v in j["violations"].as_array().cloned().unwrap_or_default() {
            let sig = v["sig"].as_str().unwrap_or("").to_string();
            let cnt = v["count"].as_u64().unwrap_or(1);
            match m.violations.get_mut(&sig) {
                Some(e) => e.count += cnt,
                None => {
                    let mut case = v["case"].clone();
                    if let Some(o) = case.as_object_mut() {
                        o.insert("shard".into(), json!(i));
                    }
                    m.violations.insert(sig.clone(), Violation { sig, what: v["what"].as_str().unwrap_or("").to_string(), case, count: cnt });
                }
            }
        }
        if let Ok(b) = std::fs::read(path.with_extension("bin")) {
            for ch in b.chunks_exact(8) {
                all_hashes.push(u64::from_le_bytes(ch.try_into().unwrap()));
            }
        }
        let _ = std::fs::remove_file(&path);
        let _ = std::fs::remove_file(path.with_extension("bin"));
        let _ = std::fs::remove_file(path.with_extension("stderr"));
    }
    all_hashes.sort_unstable();
    all_hashes.dedup();
    m.distinct_nontrivial = all_hashes.len() as u64;
    drop(all_hashes);
    for v in abort_violations {
        m.violations.entry(v.sig.clone()).or_insert(v);
    }

    let mut fin = (p.finish)(&m, tier);
    for v in fin.violations.drain(..) {
        m.violations.entry(v.sig.clone()).or_insert(v);
    }
    for f in &fin.floors {
        if !f.ok {
            inconclusive.push(format!("coverage floor missed: {}", f.what));
        }
    }
    conclude(p.id, tier, seed, t0, &m, fin, inconclusive, n)
}

/// Shared tail: known findings, replay files, evidence, exit code.
#[allow(clippy::too_many_arguments)]
pub fn conclude(id: &str, tier: Tier, seed: u64, t0: Instant, m: &Merged, fin: Finish, inconclusive: Vec<String>, nshards: usize) -> i32 {
    let known = load_known();
    let mut new_violations: Vec<&Violation> = vec![];
    let mut matched: Vec<J> = vec![];
    for v in m.violations.values() {
        if let Some(k) = known.iter().find(|k| k.property == id && k.status == "open" && k.signature == v.sig) {
            println!("KNOWN-FINDING: property={} {} [{}] (seen {}x; e.g. {})", id, k.what, v.sig, v.count, v.what);
            matched.push(json!({"signature": v.sig, "seen": v.count}));
        } else {
            new_violations.push(v);
        }
    }
    let replay_dir = verif_dir().join("replay");
    std::fs::create_dir_all(&replay_dir).ok();
    for v in &new_violations {
        let path = replay_dir.join(format!("{}-{:016x}.json", id, fnv(v.sig.as_bytes())));
        let r = json!({
            "property": id, "tier": tier.name(), "seed": seed, "nshards": nshards,
            "signature": v.sig, "what": v.what, "case": v.case, "count": v.count,
            "profile": profile_name(),
            "how_to_replay": format!("./check replay {}", path.display()),
        });
        std::fs::write(&path, serde_json::to_string_pretty(&r).unwrap()).ok();
        println!("VIOLATION property={} replay={}", id, path.display());
        println!("  signature: {}", v.sig);
        println!("  what: {}", v.what);
    }

    // evidence
    let mut cov = Map::new();
    cov.insert("evaluations".into(), json!(m.evaluations));
    cov.insert("distinct_nontrivial".into(), json!(m.distinct_nontrivial));
    cov.insert("rule".into(), json!(fin.rule));
    cov.insert("exhaustive".into(), json!(fin.exhaustive));
    if !fin.exhaustive_part.is_empty() {
        cov.insert("exhaustive_part".into(), json!(fin.exhaustive_part));
    }
    let mut samples: Vec<J> = vec![];
    for (k, v) in &m.samples {
        for x in v.iter().take(2) {
            samples.push(json!({"kind": k, "case": x}));
        }
    }
    if samples.len() > 60 {
        samples.truncate(60);
    }
    cov.insert("samples".into(), J::Array(samples));
    cov.insert("floors".into(), J::Array(fin.floors.iter().map(|f| json!({"floor": f.what, "met": f.ok})).collect()));
    cov.insert("known_findings_matched".into(), J::Array(matched));
    cov.insert("profile".into(), json!(profile_name()));
    cov.insert("shards".into(), json!(nshards));
    cov.insert("inconclusive_reasons".into(), json!(inconclusive));
    for (k, v) in fin.extras {
        cov.insert(k, v);
    }
    let secondary = out_dir().join(format!("{id}-secondary.json"));
    if std::env::var("RVMON_EVIDENCE_ALT").is_err() {
        if let Ok(txt) = std::fs::read_to_string(&secondary) {
            if let Ok(j) = serde_json::from_str::<J>(&txt) {
                cov.insert("secondary_pass".into(), json!({"profile": j["coverage"]["profile"], "tier": j["tier"], "evaluations": j["coverage"]["evaluations"], "distinct_nontrivial": j["coverage"]["distinct_nontrivial"], "violations": j["violations"], "wall_s": j["wall_s"]}));
            }
            let _ = std::fs::remove_file(&secondary);
        }
    }
    let ev = json!({
        "property_id": id,
        "tier": tier.name(),
        "seed": seed as i64,
        "level": "exploration",
        "coverage": cov,
        "assumptions": fin.assumptions,
        "wall_s": t0.elapsed().as_secs_f64(),
        "violations": new_violations.len(),
    });
    if let Ok(alt) = std::env::var("RVMON_EVIDENCE_ALT") {
        // a secondary pass (e.g. the plain-release build of C01/C02): its summary is folded into the main run's evidence
        std::fs::write(alt, serde_json::to_string(&ev).unwrap()).ok();
    } else if std::env::var("RVMON_NO_EVIDENCE").is_err() {
        let evdir = verif_dir().join("evidence");
        std::fs::create_dir_all(&evdir).ok();
        std::fs::write(evdir.join(format!("{id}.json")), serde_json::to_string_pretty(&ev).unwrap()).expect("write evidence");
    }

    println!(
        "{} {}: {} cases, {} distinct non-trivial, {} violation signature(s) ({} known), {:.1} s",
        id,
        tier.name(),
        m.evaluations,
        m.distinct_nontrivial,
        m.violations.len(),
        m.violations.len() - new_violations.len(),
        t0.elapsed().as_secs_f64()
    );
    if !new_violations.is_empty() {
        return 1;
    }
    if !inconclusive.is_empty() {
        for r in &inconclusive {
            println!("INCONCLUSIVE property={id} {r}");
        }
        return 2;
    }
    println!("HELD property={id} on everything observed");
    0
}
