//! C19 — deeply nested input cannot crash the host process. Each probe is a child process doing
//! exactly one operation on one generated text on one stack; the observation is its exit status.

use crate::core::{conclude, floor, load_known, profile_name, seed_from_env, verif_dir, Finish, Merged, Tier, Violation};
use crate::exec::block_on;
use reval::expr::Expr;
use reval::value::Value;
use serde_json::json;
use std::collections::BTreeMap;
use std::process::{Command, Stdio};
use std::time::{Duration, Instant};

pub const OPS: [&str; 7] = ["parse", "print", "debug", "clone", "compare", "drop", "evaluate"];
pub const CONSTRUCTS: [&str; 68] = [
    "neg-chain", "not-chain", "add-left-deep", "and-left-deep", "eq-left-deep", "add-right-nested", "builtin-call-nested", "list-nested", "map-nested", "if-in-condition", "if-else-chain", "index-chain",
    "bitand-left-deep", "lt-left-deep", "contains-nested", "if-in-then", "some-none-nested", "list-flat", "map-flat", "string-long",
    // long but flat inputs whose processing must be iterative
    "string-many-escapes", "string-many-unicode-escapes", "in-flat-list", "flat-list-contains", "call-with-flat-list", "long-identifier",
    // every remaining binary node kind, left-deep (one frame size per node kind in print / clone / compare / drop / evaluate)
    "sub-left-deep", "mult-left-deep", "div-left-deep", "rem-left-deep", "or-left-deep", "neq-left-deep", "gt-left-deep", "gte-left-deep", "lte-left-deep", "bitor-left-deep", "bitxor-left-deep",
    // every remaining one-argument built-in, nested
    "float-nested", "dec-nested", "datetime-nested", "duration-nested", "uppercase-nested", "lowercase-nested", "trim-nested", "round-nested", "floor-nested", "fract-nested",
    "year-nested", "month-nested", "week-nested", "day-nested", "hour-nested", "minute-nested", "second-nested",
    // mixtures and further flat inputs
    "mixed-nesting", "numeric-index-chain", "map-in-list-nested", "if-in-else-with-and", "symbol-index-chain", "long-comment", "long-whitespace", "list-flat-of-strings", "map-flat-long-keys", "in-nested",
    "list-flat-of-lists", "list-flat-of-maps", "map-flat-of-lists", "add-of-flat-calls",
];
/// constructs probed with `parse` only (their evaluation needs a ruleset or is the same tree as another construct),
/// and rule texts probed through Rule::parse
pub const PARSE_ONLY: [&str; 8] = ["parentheses", "user-call-nested", "rule-with-nested-metadata", "rule-with-many-comment-lines", "rule-with-many-metadata-items", "rule-with-nested-map-metadata", "rule-with-long-metadata-list", "rule-with-crlf-comment-lines"];
pub const STACKS: [&str; 2] = ["main-8MiB", "thread-2MiB"];

pub fn text_for(construct: &str, n: usize) -> String {
    match construct {
        "neg-chain" => format!("{}i1", "-".repeat(n)),
        "not-chain" => format!("{}true", "!".repeat(n)),
        "add-left-deep" => format!("i1{}", " + i1".repeat(n)),
        "and-left-deep" => format!("true{}", " and true".repeat(n)),
        "eq-left-deep" => format!("i1{}", " == i1".repeat(n)),
        "add-right-nested" => format!("{}i1{}", "i1 + (".repeat(n), ")".repeat(n)),
        "builtin-call-nested" => format!("{}i1{}", "int(".repeat(n), ")".repeat(n)),
        "user-call-nested" => format!("{}i1{}", "f(".repeat(n), ")".repeat(n)),
        "list-nested" => format!("{}{}", "[".repeat(n), "]".repeat(n)),
        "map-nested" => format!("{}i1{}", "{a: ".repeat(n), "}".repeat(n)),
        "if-in-condition" => format!("{}true{}", "if ".repeat(n), " then true else false".repeat(n)),
        "if-else-chain" => format!("{}i1", "if false then i1 else ".repeat(n)),
        "index-chain" => format!("facts{}", ".b".repeat(n)),
        "parentheses" => format!("{}i1{}", "(".repeat(n), ")".repeat(n)),
        "bitand-left-deep" => format!("i1{}", " & i1".repeat(n)),
        "lt-left-deep" => format!("i1{}", " < i1".repeat(n)),
        "contains-nested" => format!("{}[]{}", "(".repeat(n), " contains i1)".repeat(n)),
        "if-in-then" => format!("{}i1{}", "if true then ".repeat(n), " else i2".repeat(n)),
        "some-none-nested" => format!("{}i1{}", "some(none(".repeat(n), "))".repeat(n)),
        "sub-left-deep" => format!("i1{}", " - i1".repeat(n)),
        "mult-left-deep" => format!("i1{}", " * i1".repeat(n)),
        "div-left-deep" => format!("i1{}", " / i1".repeat(n)),
        "rem-left-deep" => format!("i1{}", " % i1".repeat(n)),
        "or-left-deep" => format!("false{}", " or false".repeat(n)),
        "neq-left-deep" => format!("i1{}", " != i1".repeat(n)),
        "gt-left-deep" => format!("i1{}", " > i1".repeat(n)),
        "gte-left-deep" => format!("i1{}", " >= i1".repeat(n)),
        "lte-left-deep" => format!("i1{}", " <= i1".repeat(n)),
        "bitor-left-deep" => format!("i1{}", " | i1".repeat(n)),
        "bitxor-left-deep" => format!("i1{}", " ^ i1".repeat(n)),
        c if c.ends_with("-nested") && ["float", "dec", "datetime", "duration", "uppercase", "lowercase", "trim", "round", "floor", "fract", "year", "month", "week", "day", "hour", "minute", "second"].contains(&&c[..c.len() - 7]) => {
            let f = &c[..c.len() - 7];
            format!("{}none{}", format!("{f}(").repeat(n), ")".repeat(n))
        }
        // one level = five different node kinds around the next level
        "mixed-nesting" => format!("{}i1{}", "-(i1 + [{a: if true then ".repeat(n), " else i2}].0.a)".repeat(n)),
        "numeric-index-chain" => format!("facts{}", ".0".repeat(n)),
        "map-in-list-nested" => format!("{}i1{}", "[{a: ".repeat(n), "}]".repeat(n)),
        "if-in-else-with-and" => format!("{}i1", "if false and true then i1 else ".repeat(n)),
        "symbol-index-chain" => format!(":s{}", ".a.0".repeat(n)),
        "in-nested" => format!("{}i1{}", "(i1 in ".repeat(n), ")".repeat(n)),
        // long but flat
        "long-comment" => format!("// {}\ni1", "comment ".repeat(n * 2)),
        "long-whitespace" => format!("i1 +{}i1", " \t\n".repeat(n * 4)),
        "list-flat-of-strings" => format!("[{}\"z\"]", "\"a\\n\", ".repeat(n)),
        "map-flat-long-keys" => format!("{{{}z: i1}}", (0..n).map(|i| format!("a_rather_long_key_name_number_{i}: none, ")).collect::<String>()),
        "list-flat-of-lists" => format!("[{}[]]", "[i1, none], ".repeat(n)),
        "list-flat-of-maps" => format!("[{}{{}}]", "{a: i1, b: \"s\"}, ".repeat(n)),
        "map-flat-of-lists" => format!("{{{}z: []}}", (0..n).map(|i| format!("k{i}: [i1, [i2]], ")).collect::<String>()),
        "add-of-flat-calls" => format!("[{}int(i1)].0 + i1", "trim(\"a\"), ".repeat(n)),
        "list-flat" => format!("[{}i1]", "i1, ".repeat(n)),
        "map-flat" => format!("{{{}z: i1}}", (0..n).map(|i| format!("k{i}: i1, ")).collect::<String>()),
        "string-long" => format!("\"{}\"", "0123456789".repeat(n)),
        "string-many-escapes" => format!("\"{}\"", "\\n\\t\\\\".repeat(n)),
        "string-many-unicode-escapes" => format!("\"{}\"", "\\u{41}".repeat(n)),
        "in-flat-list" => format!("i0 in [{}i1]", "i1, ".repeat(n)),
        "flat-list-contains" => format!("[{}i1] contains i0", "i1, ".repeat(n)),
        "call-with-flat-list" => format!("some([{}i1])", "none, ".repeat(n)),
        "long-identifier" => format!("a{}", "b".repeat(n * 10)),
        "rule-with-nested-metadata" => format!("// name\n@m: {}i1{};\ni1", "[".repeat(n), "]".repeat(n)),
        "rule-with-many-comment-lines" => format!("{}i1", "// line\n".repeat(n)),
        "rule-with-many-metadata-items" => format!("// name\n{}i1", (0..n).map(|i| format!("@k{i}: i{i};\n")).collect::<String>()),
        "rule-with-nested-map-metadata" => format!("// name\n@m: {}i1{};\ni1", "{a: ".repeat(n), "}".repeat(n)),
        "rule-with-long-metadata-list" => format!("// name\n@m: [{}i1];\ni1", "i1, ".repeat(n)),
        "rule-with-crlf-comment-lines" => format!("{}i1\r\n{}", "// line\r\n".repeat(n), "  // after\r\n".repeat(n)),
        _ => panic!("construct {construct}"),
    }
}

/// The child: one operation, everything else leaked so that it is not observed.
pub fn probe(op: &str, construct: &str, depth: usize, stack: &str) -> i32 {
    let op = op.to_string();
    let construct = construct.to_string();
    let body = move || {
        let text = text_for(&construct, depth);
        if op == "parse" && construct.starts_with("rule-") {
            let r = reval::prelude::Rule::parse(&text);
            let ok = r.is_ok();
            std::mem::forget(r);
            return if ok { 0 } else { 3 };
        }
        if op == "parse" {
            let r = Expr::parse(&text);
            let ok = r.is_ok();
            std::mem::forget(r);
            return if ok { 0 } else { 3 };
        }
        // building the tree must not be what is observed: the parser keeps its stack on the heap
        let tree = match Expr::parse(&text) {
            Ok(t) => t,
            Err(_) => return 3, // rejected (e.g. a depth limit): completing with an error is fine
        };
        match op.as_str() {
            "print" => {
                let s = tree.to_string();
                std::mem::forget(s);
                std::mem::forget(tree);
            }
            "debug" => {
                let s = format!("{tree:?}");
                std::mem::forget(s);
                std::mem::forget(tree);
            }
            "clone" => {
                let c = tree.clone();
                std::mem::forget(c);
                std::mem::forget(tree);
            }
            "compare" => {
                let other = Expr::parse(&text).unwrap();
                let eq = tree == other;
                std::mem::forget(other);
                std::mem::forget(tree);
                if !eq {
                    return 4;
                }
            }
            "drop" => drop(tree),
            "evaluate" => {
                let r = block_on(tree.evaluate(&Value::None));
                std::mem::forget(r);
                std::mem::forget(tree);
            }
            _ => return 5,
        }
        0
    };
    match stack {
        "thread-2MiB" => std::thread::Builder::new().stack_size(2 * 1024 * 1024).spawn(body).unwrap().join().unwrap_or(101),
        _ => body(),
    }
}

#[derive(Clone, Debug, PartialEq)]
enum End {
    Completed,
    Crashed(String),
    Slow,
}

fn run_child(exe: &std::path::Path, op: &str, construct: &str, depth: usize, stack: &str) -> End {
    // main-thread stack fixed at 8 MiB through the shell's ulimit, whatever the caller's limit is
    let mut c = Command::new("sh");
    c.arg("-c").arg("ulimit -s 8192 2>/dev/null; exec \"$0\" \"$@\"").arg(exe).arg("stackprobe").arg(op).arg(construct).arg(depth.to_string()).arg(stack);
    c.stdin(Stdio::null()).stdout(Stdio::null()).stderr(Stdio::null());
    let mut child = c.spawn().expect("spawn probe");
    let t0 = Instant::now();
    loop {
        match child.try_wait() {
            Ok(Some(st)) => {
                use std::os::unix::process::ExitStatusExt;
                return match (st.code(), st.signal()) {
                    (Some(0), _) | (Some(3), _) => End::Completed,
                    (Some(c), _) if c >= 128 => End::Crashed(format!("exit {c} (signal {})", c - 128)),
                    (Some(c), _) => End::Crashed(format!("exit {c}")),
                    (None, Some(s)) => End::Crashed(format!("signal {s}")),
                    _ => End::Crashed("unknown".into()),
                };
            }
            Ok(None) => {
                if t0.elapsed() > Duration::from_secs(60) {
                    let _ = child.kill();
                    let _ = child.wait();
                    return End::Slow;
                }
                std::thread::sleep(Duration::from_millis(2));
            }
            Err(_) => return End::Crashed("wait failed".into()),
        }
    }
}

struct CellResult {
    op: &'static str,
    construct: &'static str,
    stack: &'static str,
    profile: String,
    /// largest depth that completed, smallest depth that crashed
    survived: usize,
    crashed_at: Option<(usize, String)>,
    children: u64,
    slow: bool,
}

fn explore(exe: &std::path::Path, op: &'static str, construct: &'static str, stack: &'static str, profile: &str, max_depth: usize) -> CellResult {
    let mut r = CellResult { op, construct, stack, profile: profile.to_string(), survived: 0, crashed_at: None, children: 0, slow: false };
    let grid: Vec<usize> = [10usize, 100, 1_000, 10_000, 100_000].into_iter().filter(|d| *d <= max_depth).collect();
    let mut lo = 0usize;
    let mut hi: Option<(usize, String)> = None;
    for d in grid {
        r.children += 1;
        match run_child(exe, op, construct, d, stack) {
            End::Completed => lo = d,
            End::Crashed(how) => {
                hi = Some((d, how));
                break;
            }
            End::Slow => {
                r.slow = true;
                break;
            }
        }
    }
    // bisect the first crashing grid point to ~3 % precision
    if let Some((mut h, mut how)) = hi.clone() {
        while h - lo > (lo / 32).max(1) {
            let mid = lo + (h - lo) / 2;
            r.children += 1;
            match run_child(exe, op, construct, mid, stack) {
                End::Completed => lo = mid,
                End::Crashed(w) => {
                    h = mid;
                    how = w;
                }
                End::Slow => {
                    r.slow = true;
                    break;
                }
            }
        }
        r.crashed_at = Some((h, how));
    }
    r.survived = lo;
    r
}

pub fn cell_signature(op: &str, construct: &str, stack: &str, profile: &str) -> String {
    format!("C19 crash op={op} construct={construct} stack={stack} profile={profile}")
}

pub fn drive(tier: Tier) -> i32 {
    let t0 = Instant::now();
    let seed = seed_from_env();
    let mut inconclusive = vec![];
    let exe_verif = std::env::current_exe().expect("exe");
    let mut exes: Vec<(String, std::path::PathBuf)> = vec![(profile_name(), exe_verif.clone())];
    if tier == Tier::Thorough {
        // the debug build of the same binary (built by ./check for the thorough tier)
        let dev = exe_verif.parent().unwrap().parent().unwrap().join("debug").join("rvmon");
        if dev.exists() {
            exes.push(("dev".into(), dev));
        } else {
            inconclusive.push("thorough tier: the dev-profile probe binary is missing".to_string());
        }
    }
    let max_depth = 100_000;
    let mut cells: Vec<(String, std::path::PathBuf, &'static str, &'static str, &'static str)> = vec![];
    for (pname, exe) in &exes {
        for op in OPS {
            for c in CONSTRUCTS {
                for s in STACKS {
                    cells.push((pname.clone(), exe.clone(), op, c, s));
                }
            }
        }
        for c in PARSE_ONLY {
            for s in STACKS {
                cells.push((pname.clone(), exe.clone(), "parse", c, s));
            }
        }
    }
    // run cells on 16 worker threads
    let results = std::sync::Mutex::new(Vec::<CellResult>::new());
    let next = std::sync::atomic::AtomicUsize::new(0);
    std::thread::scope(|sc| {
        for _ in 0..16 {
            sc.spawn(|| loop {
                let i = next.fetch_add(1, std::sync::atomic::Ordering::SeqCst);
                if i >= cells.len() {
                    break;
                }
                let (pname, exe, op, c, s) = &cells[i];
                let r = explore(exe, op, c, s, pname, max_depth);
                results.lock().unwrap().push(r);
            });
        }
    });
    let mut results = results.into_inner().unwrap();
    results.sort_by_key(|r| (r.profile.clone(), r.op, r.construct, r.stack));

    // known findings carry a depth floor per cell
    let floors: BTreeMap<String, u64> = {
        let p = verif_dir().join("known_findings.json");
        let j: serde_json::Value = std::fs::read_to_string(&p).ok().and_then(|s| serde_json::from_str(&s).ok()).unwrap_or(json!({}));
        let mut m = BTreeMap::new();
        for e in j["findings"].as_array().cloned().unwrap_or_default() {
            if e["property"] == "C19" && e["status"] == "open" {
                if let (Some(sig), Some(f)) = (e["signature"].as_str(), e["min_depth"].as_u64()) {
                    m.insert(sig.to_string(), f);
                }
            }
        }
        m
    };
    let _ = load_known;

    let mut m = Merged { evaluations: 0, distinct_nontrivial: 0, counters: BTreeMap::new(), samples: BTreeMap::new(), violations: BTreeMap::new() };
    let mut table = vec![];
    let mut nontrivial = 0u64;
    for r in &results {
        m.evaluations += r.children;
        if r.slow {
            inconclusive.push(format!("probe {} {} {} {} exceeded 60 s", r.op, r.construct, r.stack, r.profile));
        }
        // a cell is non-trivial when it was driven to at least 10^3 levels or to a crash
        if r.survived >= 1_000 || r.crashed_at.is_some() {
            nontrivial += 1;
        }
        table.push(json!({"op": r.op, "construct": r.construct, "stack": r.stack, "profile": r.profile, "deepest_completed": r.survived, "first_crash": r.crashed_at.as_ref().map(|(d, how)| json!({"depth": d, "how": how}))}));
        if let Some((d, how)) = &r.crashed_at {
            let base = cell_signature(r.op, r.construct, r.stack, &r.profile);
            let sig = match floors.get(&base) {
                Some(f) if (*d as u64) >= *f => base.clone(),
                Some(f) => format!("{base} BELOW-FLOOR (crashes at depth {d}, listed finding starts at {f})"),
                None => base.clone(),
            };
            m.violations.insert(sig.clone(), Violation { sig, what: format!("{} of a {} nested {} levels deep killed the process ({how}); deepest that completed: {}", r.op, r.construct, d, r.survived), case: json!({"op": r.op, "construct": r.construct, "depth": d, "stack": r.stack, "profile": r.profile, "text_prefix": text_for(r.construct, 3)}), count: 1 });
        }
    }
    m.distinct_nontrivial = nontrivial;
    let crashing = results.iter().filter(|r| r.crashed_at.is_some()).count();
    let mut fin = Finish {
        rule: "one child process per probe: it builds the text of one recursive construct at one nesting depth, performs exactly one of parse / print / clone / compare / drop / evaluate on it (other results are leaked so they are not observed) on a main thread limited to 8 MiB or on a 2 MiB worker thread, and its exit status is the observation (normal exit = completed or returned an error; signal = crashed). Depth grid 10..10^5, the first crashing grid point is bisected to ~3 %. evaluations = child processes run; non-trivial = cells driven to >= 1000 levels or to a crash; distinct by (operation, construct, stack, profile)".into(),
        exhaustive: true,
        exhaustive_part: "the full grid operations x constructs x stacks (x profiles in the thorough tier)".into(),
        ..Default::default()
    };
    fin.floors.push(floor(format!("cells explored: {}", results.len()), results.len() >= 7 * 68 * 2));
    fin.extras.insert("threshold_table".into(), json!(table));
    fin.extras.insert("cells_crashing".into(), json!(crashing));
    fin.extras.insert("cells_surviving_1e5".into(), json!(results.iter().filter(|r| r.crashed_at.is_none() && r.survived >= 100_000).count()));
    fin.extras.insert("depth_floors_from_known_findings".into(), json!(floors));
    fin.assumptions = vec![
        "a crash is any termination by signal (SIGSEGV / SIGABRT from the stack guard page); a 60 s watchdog makes a probe inconclusive, never a violation".into(),
        "listed findings carry a depth floor (min_depth): a crash at or beyond it is the known finding, a crash below it or in an unlisted cell is a violation".into(),
    ];
    m.samples.insert("probe".into(), table.iter().take(6).cloned().collect());
    conclude("C19", tier, seed, t0, &m, fin, inconclusive, 16)
}
