//! E5 — hand-rolled executors (safe code only): run-to-completion `block_on`, and a
//! schedule-controlled driver for several futures with explicit poll order and cancellation.

use std::cell::Cell;
use std::future::Future;
use std::pin::Pin;
use std::sync::Arc;
use std::task::{Context, Poll, Wake, Waker};

/// The executors below poll in a loop whether or not the future asked for it, so every schedule can be
/// forced; the waker only counts. A future that returns Pending without having called the waker would
/// never be polled again by an executor that polls on wake-up (tokio, async-std, …): that is recorded
/// as a lost wake-up and judged by C12.
#[derive(Default)]
struct CountingWaker(std::sync::atomic::AtomicU64);
impl Wake for CountingWaker {
    fn wake(self: Arc<Self>) {
        self.0.fetch_add(1, std::sync::atomic::Ordering::SeqCst);
    }
    fn wake_by_ref(self: &Arc<Self>) {
        self.0.fetch_add(1, std::sync::atomic::Ordering::SeqCst);
    }
}

struct Wakes(Arc<CountingWaker>);
impl Wakes {
    fn new() -> (Wakes, Waker) {
        let c = Arc::new(CountingWaker::default());
        (Wakes(c.clone()), Waker::from(c))
    }
    fn count(&self) -> u64 {
        self.0 .0.load(std::sync::atomic::Ordering::SeqCst)
    }
}

struct Noop;
impl Wake for Noop {
    fn wake(self: Arc<Self>) {}
}

pub fn noop_waker() -> Waker {
    Waker::from(Arc::new(Noop))
}

thread_local! {
    static LOST_WAKEUPS: Cell<u64> = const { Cell::new(0) };
}

/// number of polls (on this thread, since the last call) that returned Pending although the waker had not been called
pub fn take_lost_wakeups() -> u64 {
    LOST_WAKEUPS.with(|c| c.replace(0))
}

thread_local! {
    /// id of the evaluation whose future is being polled right now (read by instrumented functions)
    pub static CURRENT_EVAL: Cell<u64> = const { Cell::new(0) };
}

/// Drive one future to completion on this thread. Returns (output, number of polls).
pub fn block_on_count<F: Future>(f: F) -> (F::Output, u64) {
    let (wakes, waker) = Wakes::new();
    let mut cx = Context::from_waker(&waker);
    let mut f = Box::pin(f);
    let mut polls = 0;
    loop {
        polls += 1;
        let before = wakes.count();
        if let Poll::Ready(v) = f.as_mut().poll(&mut cx) {
            return (v, polls);
        }
        if wakes.count() == before {
            LOST_WAKEUPS.with(|c| c.set(c.get() + 1));
        }
        assert!(polls < 10_000_000, "future never completes");
    }
}

pub fn block_on<F: Future>(f: F) -> F::Output {
    block_on_count(f).0
}

/// A future that returns Pending `n` times before completing: the only suspension points that
/// exist in reval's cooperative evaluation are awaits on user functions, so this is where
/// interleavings are created.
pub struct YieldN(pub usize);
impl Future for YieldN {
    type Output = ();
    fn poll(mut self: Pin<&mut Self>, cx: &mut Context<'_>) -> Poll<()> {
        if self.0 == 0 {
            Poll::Ready(())
        } else {
            self.0 -= 1;
            cx.waker().wake_by_ref();
            Poll::Pending
        }
    }
}

pub type BoxFut<'a, T> = Pin<Box<dyn Future<Output = T> + 'a>>;

/// Poll the given futures following `schedule` (a sequence of future indices). A future that is
/// already finished is skipped. `drop_after[i] = Some(k)` drops future i after its k-th poll if it
/// has not completed by then. After the schedule is exhausted the remaining futures are driven
/// round-robin to completion. Returns each future's output (None = dropped) and the realised
/// schedule (indices actually polled).
pub fn run_schedule<'a, T>(futs: Vec<BoxFut<'a, T>>, ids: &[u64], schedule: &[usize], drop_after: &[Option<usize>]) -> (Vec<Option<T>>, Vec<usize>) {
    let (wakes, waker) = Wakes::new();
    let mut cx = Context::from_waker(&waker);
    let n = futs.len();
    let mut slots: Vec<Option<BoxFut<'a, T>>> = futs.into_iter().map(Some).collect();
    let mut out: Vec<Option<T>> = (0..n).map(|_| None).collect();
    let mut polls = vec![0usize; n];
    let mut realised = vec![];
    let mut step = |i: usize, slots: &mut Vec<Option<BoxFut<'a, T>>>, out: &mut Vec<Option<T>>, polls: &mut Vec<usize>, realised: &mut Vec<usize>| {
        if let Some(f) = slots[i].as_mut() {
            CURRENT_EVAL.with(|c| c.set(ids[i]));
            realised.push(i);
            polls[i] += 1;
            let before = wakes.count();
            match f.as_mut().poll(&mut cx) {
                Poll::Ready(v) => {
                    out[i] = Some(v);
                    slots[i] = None;
                }
                Poll::Pending => {
                    if wakes.count() == before {
                        LOST_WAKEUPS.with(|c| c.set(c.get() + 1));
                    }
                    if let Some(k) = drop_after.get(i).copied().flatten() {
                        if polls[i] >= k {
                            slots[i] = None; // cancellation: the future is dropped mid-evaluation
                        }
                    }
                }
            }
        }
    };
    // drop_after = Some(0): dropped before the first poll
    for i in 0..n {
        if drop_after.get(i).copied().flatten() == Some(0) {
            slots[i] = None;
        }
    }
    for &i in schedule {
        if i < n {
            step(i, &mut slots, &mut out, &mut polls, &mut realised);
        }
    }
    let mut guard = 0;
    while slots.iter().any(|s| s.is_some()) {
        for i in 0..n {
            step(i, &mut slots, &mut out, &mut polls, &mut realised);
        }
        guard += 1;
        assert!(guard < 1_000_000, "futures never complete");
    }
    (out, realised)
}
