//! rvmon — runtime monitors for mendelt/reval (see /verif/DESIGN.md).
//!   rvmon run <Cxx> <quick|thorough>        drive all shards of one property, write evidence
//!   rvmon shard <Cxx> <tier> <seed> <i> <n> <out.json>   (internal) run one shard
//!   rvmon replay <replay.json>              re-run the shard that found a violation, verbosely


use rvmon::core::{self, Property, Tier};
use rvmon::*;

fn registry() -> Vec<Property> {
    vec![c01::PROP, c02::PROP, c03::PROP, c04::PROP, c05::PROP, c06::PROP, c07::PROP, c08::PROP, c09::PROP, c10::PROP, c11::PROP, c12::PROP, c13::PROP, c14::PROP, c15::PROP, c16::PROP, c17::PROP]
}

fn find(id: &str) -> Property {
    match registry().into_iter().find(|p| p.id == id) {
        Some(p) => p,
        None => {
            println!("INCONCLUSIVE property={id} no monitor registered under that id");
            std::process::exit(2);
        }
    }
}

fn main() {
    let args: Vec<String> = std::env::args().collect();
    let cmd = args.get(1).map(|s| s.as_str()).unwrap_or("");
    match cmd {
        "stackprobe" => {
            let depth: usize = args[4].parse().expect("depth");
            std::process::exit(c19::probe(&args[2], &args[3], depth, &args[5]));
        }
        "run" => {
            let tier0 = args.get(3).and_then(|t| Tier::parse(t)).or_else(|| std::env::var("VERIF_TIER").ok().and_then(|t| Tier::parse(&t))).unwrap_or(Tier::Quick);
            if args[2] == "C18" {
                std::process::exit(c18::drive(tier0));
            }
            if args[2] == "C19" {
                std::process::exit(c19::drive(tier0));
            }
            let p = find(&args[2]);
            let tier = tier0;
            std::process::exit(core::drive(&p, tier));
        }
        "shard" => {
            let p = find(&args[2]);
            let tier = Tier::parse(&args[3]).expect("tier");
            let seed: u64 = args[4].parse().expect("seed");
            let i: usize = args[5].parse().expect("shard");
            let n: usize = args[6].parse().expect("nshards");
            core::run_shard(&p, tier, seed, i, n, std::path::Path::new(&args[7]));
        }
        "envprobe" => {
            // one evaluation workload under the LD_PRELOAD shim (child process of C12): prints what it observed
            std::process::exit(rvmon::c12::env_probe());
        }
        "contextprobe" => {
            // parsing from unusual calling contexts (child process of C06: an abort here is observed through the exit status)
            std::process::exit(rvmon::c06::context_probe());
        }
        "fuzzleg" => {
            // only the coverage-guided leg (used when validating the monitors against seeded changes): rvmon fuzzleg <Cxx> <seconds>
            let fz = rvmon::fuzzleg::run(&args[2], args[3].parse().expect("seconds"), core::seed_from_env());
            println!("fuzzleg {}: {} executions, {} units, {} finding(s) for it, others {:?}, notes {:?}", args[2], fz.execs, fz.new_units, fz.violations.len(), fz.other, fz.inconclusive);
            for v in &fz.violations {
                println!("  {} ({}x) {}", v.sig, v.count, v.case["text_debug"]);
            }
            std::process::exit(if fz.violations.is_empty() { 0 } else { 1 });
        }
        "replay" => {
            let text = std::fs::read_to_string(&args[2]).expect("replay file");
            let j: serde_json::Value = serde_json::from_str(&text).expect("replay json");
            let tier = Tier::parse(j["tier"].as_str().unwrap_or("quick")).unwrap();
            match j["property"].as_str().unwrap_or("") {
                "C19" => {
                    // one probe: the recorded operation at the recorded depth
                    let c = &j["case"];
                    let exe = std::env::current_exe().unwrap();
                    let st = std::process::Command::new("sh").arg("-c").arg("ulimit -s 8192 2>/dev/null; exec \"$0\" \"$@\"").arg(&exe).arg("stackprobe")
                        .arg(c["op"].as_str().unwrap_or("")).arg(c["construct"].as_str().unwrap_or("")).arg(c["depth"].to_string()).arg(c["stack"].as_str().unwrap_or("main-8MiB")).status().expect("probe");
                    println!("probe {} {} depth {} on {}: {st}", c["op"], c["construct"], c["depth"], c["stack"]);
                    if st.success() || st.code() == Some(3) {
                        println!("replay: the probe completes on the current tree");
                        std::process::exit(0);
                    }
                    println!("VIOLATION property=C19 replay={}", args[2]);
                    std::process::exit(1);
                }
                "C18" => std::process::exit(c18::drive(tier)),
                _ if j["case"]["how_to_replay"] == "rvmon contextprobe" => {
                    let st = std::process::Command::new(std::env::current_exe().unwrap()).arg("contextprobe").status().expect("probe");
                    if st.success() {
                        println!("replay: every calling context parses on the current tree");
                        std::process::exit(0);
                    }
                    println!("VIOLATION property=C06 replay={}", args[2]);
                    std::process::exit(1);
                }
                prop if j["case"]["fuzz"] == true => {
                    // a finding of the coverage-guided leg: the recorded text through the same oracles
                    let recorded = j["case"]["text_debug"].as_str().unwrap_or("");
                    let (eval, recorded) = match recorded.strip_prefix("EVAL ") { Some(r) => (true, r), None => (false, recorded) };
                    let text = rvmon::fuzzleg::undebug(recorded);
                    match if eval { rvmon::fuzzleg::oracles_eval(&text) } else { rvmon::fuzzleg::oracles(&text) } {
                        Some((p, class)) if p == prop => {
                            println!("text {text:?}: {class}");
                            println!("VIOLATION property={prop} replay={}", args[2]);
                            std::process::exit(1);
                        }
                        other => {
                            println!("replay: not reproduced on the current tree ({other:?})");
                            std::process::exit(0);
                        }
                    }
                }
                _ => {}
            }
            let p = find(j["property"].as_str().unwrap_or(""));
            let seed = j["seed"].as_u64().unwrap_or(1);
            let n = j["nshards"].as_u64().unwrap_or(16) as usize;
            let shard = j["case"]["shard"].as_u64().unwrap_or(0) as usize;
            let sig = j["signature"].as_str().unwrap_or("").to_string();
            println!("replaying {} shard {shard}/{n} seed {seed} tier {} looking for signature: {sig}", p.id, tier.name());
            std::env::set_var("RVMON_REPLAY_SIG", &sig);
            let out = std::env::temp_dir().join(format!("rvmon-replay-{}.json", std::process::id()));
            core::run_shard(&p, tier, seed, shard, n, &out);
            let res: serde_json::Value = serde_json::from_slice(&std::fs::read(&out).unwrap()).unwrap();
            let _ = std::fs::remove_file(&out);
            let _ = std::fs::remove_file(out.with_extension("bin"));
            let hit = res["violations"].as_array().map(|a| a.iter().any(|v| v["sig"] == sig.as_str())).unwrap_or(false);
            if hit {
                println!("VIOLATION property={} replay={}", p.id, args[2]);
                std::process::exit(1);
            } else {
                println!("replay: signature not reproduced on the current tree");
                std::process::exit(0);
            }
        }
        _ => {
            eprintln!("usage: rvmon run <Cxx> <quick|thorough> | rvmon replay <file>");
            std::process::exit(2);
        }
    }
}
