//! The harness's own printer for `Expr` (independent of reval's `Display`): correct escaping,
//! parentheses computed from the precedence table of C07. Returns None when a tree cannot be
//! written as rule text at all (e.g. a DateTime literal, a NaN, a map key that is not an identifier).

use crate::rng::Rng;
use reval::expr::{Expr, Index};
use reval::value::Value;

pub const KEYWORDS: [&str; 37] = [
    "and", "or", "if", "then", "else", "is_some", "is_none", "none", "some", "int", "float", "dec", "contains", "in", "date_time", "datetime", "duration", "to_upper", "to_lower",
    "uppercase", "lowercase", "trim", "round", "floor", "fract", "year", "month", "week", "day", "hour", "minute", "second", "true", "false",
    // not keywords of the lexer but reserved for function names
    "starts", "ends", "key",
];

/// Is `s` lexed as a single IDENT token by the DSL lexer (and nothing else)?
pub fn is_plain_ident(s: &str) -> bool {
    let mut cs = s.chars();
    match cs.next() {
        Some(c) if c.is_ascii_alphabetic() => {}
        _ => return false,
    }
    if !cs.all(|c| c.is_ascii_alphanumeric() || c == '_') {
        return false;
    }
    if KEYWORDS[..34].contains(&s) {
        return false;
    }
    !literal_shaped(s)
}

/// words that the lexer's literal regexes claim with the same length as IDENT would: i5, f1, d2, f1e5
pub fn literal_shaped(s: &str) -> bool {
    let b = s.as_bytes();
    if b.len() < 2 {
        return false;
    }
    let digits = |x: &[u8]| !x.is_empty() && x.iter().all(|c| c.is_ascii_digit());
    match b[0] {
        b'i' | b'd' => digits(&b[1..]),
        b'f' => {
            if digits(&b[1..]) {
                return true;
            }
            // f<digits>e<digits> / f<digits>E<digits>
            if let Some(p) = b[1..].iter().position(|c| *c == b'e' || *c == b'E') {
                let (m, e) = (&b[1..1 + p], &b[2 + p..]);
                return digits(m) && digits(e);
            }
            false
        }
        _ => false,
    }
}

pub fn escape_string(s: &str, rng: Option<&mut Rng>) -> String {
    let mut out = String::with_capacity(s.len() + 2);
    out.push('"');
    let mut rng = rng;
    for c in s.chars() {
        let fancy = match rng.as_mut() {
            Some(r) => r.below(4),
            None => 0,
        };
        match c {
            '\\' => out.push_str("\\\\"),
            '"' => out.push_str("\\\""),
            '\n' if fancy != 1 => out.push_str("\\n"),
            '\r' if fancy != 1 => out.push_str("\\r"),
            '\t' if fancy != 1 => out.push_str("\\t"),
            '\'' if fancy == 2 => out.push_str("\\'"),
            c if fancy == 3 => out.push_str(&format!("\\u{{{:x}}}", c as u32)),
            c => out.push(c),
        }
    }
    out.push('"');
    out
}

pub fn value_text(v: &Value) -> Option<String> {
    Some(match v {
        Value::String(s) => escape_string(s, None),
        Value::Int(n) => format!("i{n}"),
        Value::Float(f) => {
            if f.is_nan() {
                return None;
            } else if f.is_infinite() {
                if *f > 0.0 { "f1e999".to_string() } else { "f-1e999".to_string() }
            } else {
                format!("f{f}")
            }
        }
        Value::Decimal(d) => format!("d{d}"),
        Value::Bool(b) => format!("{b}"),
        Value::None => "none".to_string(),
        Value::DateTime(_) | Value::Duration(_) => return None,
        Value::Vec(xs) => {
            let mut parts = vec![];
            for x in xs {
                parts.push(value_text(x)?);
            }
            format!("[{}]", parts.join(", "))
        }
        Value::Map(m) => {
            let mut parts = vec![];
            for (k, x) in m {
                if !is_plain_ident(k) {
                    return None;
                }
                parts.push(format!("{k}: {}", value_text(x)?));
            }
            format!("{{{}}}", parts.join(", "))
        }
    })
}

pub fn level(e: &Expr) -> u8 {
    match e {
        Expr::If(..) => 0,
        Expr::And(..) | Expr::Or(..) => 1,
        Expr::Equals(..) | Expr::NotEquals(..) | Expr::GreaterThan(..) | Expr::GreaterThanEquals(..) | Expr::LessThan(..) | Expr::LessThanEquals(..) => 2,
        Expr::Add(..) | Expr::Sub(..) => 3,
        Expr::Mult(..) | Expr::Div(..) | Expr::Rem(..) => 4,
        Expr::BitAnd(..) | Expr::BitOr(..) | Expr::BitXor(..) => 5,
        Expr::Contains(..) => 6,
        Expr::Neg(..) | Expr::Not(..) => 7,
        Expr::Index(..) => 8,
        _ => 9,
    }
}

#[derive(Clone, Copy, PartialEq, Eq, Debug)]
pub enum Parens {
    Minimal,
    Full,
    Random,
}

pub struct Printer<'a> {
    pub parens: Parens,
    pub rng: Option<&'a mut Rng>,
    /// use alternative spellings at random (= for ==, is_some, date_time, x in y, …)
    pub alt_spellings: bool,
}

pub fn bin_op(e: &Expr) -> Option<(&'static str, &Expr, &Expr, u8, u8)> {
    // (symbol, left, right, min level of left, min level of right)
    Some(match e {
        Expr::And(l, r) => ("and", l, r, 1, 2),
        Expr::Or(l, r) => ("or", l, r, 1, 2),
        Expr::Equals(l, r) => ("==", l, r, 2, 3),
        Expr::NotEquals(l, r) => ("!=", l, r, 2, 3),
        Expr::GreaterThan(l, r) => (">", l, r, 2, 3),
        Expr::GreaterThanEquals(l, r) => (">=", l, r, 2, 3),
        Expr::LessThan(l, r) => ("<", l, r, 2, 3),
        Expr::LessThanEquals(l, r) => ("<=", l, r, 2, 3),
        Expr::Add(l, r) => ("+", l, r, 3, 4),
        Expr::Sub(l, r) => ("-", l, r, 3, 4),
        Expr::Mult(l, r) => ("*", l, r, 4, 5),
        Expr::Div(l, r) => ("/", l, r, 4, 5),
        Expr::Rem(l, r) => ("%", l, r, 4, 5),
        Expr::BitAnd(l, r) => ("&", l, r, 5, 6),
        Expr::BitOr(l, r) => ("|", l, r, 5, 6),
        Expr::BitXor(l, r) => ("^", l, r, 5, 6),
        Expr::Contains(l, r) => ("contains", l, r, 8, 8),
        _ => return None,
    })
}

pub fn un_fn(e: &Expr) -> Option<(&'static str, &'static str, &Expr)> {
    // (canonical spelling, alternative spelling, argument)
    Some(match e {
        Expr::Some(x) => ("some", "is_some", x),
        Expr::None(x) => ("none", "is_none", x),
        Expr::Int(x) => ("int", "int", x),
        Expr::Float(x) => ("float", "float", x),
        Expr::Dec(x) => ("dec", "dec", x),
        Expr::DateTime(x) => ("datetime", "date_time", x),
        Expr::Duration(x) => ("duration", "duration", x),
        Expr::UpperCase(x) => ("uppercase", "to_upper", x),
        Expr::LowerCase(x) => ("lowercase", "to_lower", x),
        Expr::Trim(x) => ("trim", "trim", x),
        Expr::Floor(x) => ("floor", "floor", x),
        Expr::Round(x) => ("round", "round", x),
        Expr::Fract(x) => ("fract", "fract", x),
        Expr::Year(x) => ("year", "year", x),
        Expr::Month(x) => ("month", "month", x),
        Expr::Week(x) => ("week", "week", x),
        Expr::Day(x) => ("day", "day", x),
        Expr::Hour(x) => ("hour", "hour", x),
        Expr::Minute(x) => ("minute", "minute", x),
        Expr::Second(x) => ("second", "second", x),
        _ => return None,
    })
}

impl Printer<'_> {
    fn coin(&mut self, num: usize, den: usize) -> bool {
        match self.rng.as_mut() {
            Some(r) => r.chance(num, den),
            None => false,
        }
    }

    fn child(&mut self, e: &Expr, min_level: u8) -> Option<String> {
        let s = self.print(e)?;
        let need = level(e) < min_level;
        let wrap = match self.parens {
            Parens::Minimal => need,
            Parens::Full => need || level(e) < 9,
            Parens::Random => need || self.coin(1, 3),
        };
        let mut s = if wrap { format!("({s})") } else { s };
        if self.parens == Parens::Random {
            while self.coin(1, 6) {
                s = format!("({s})");
            }
        }
        Some(s)
    }

    pub fn print(&mut self, e: &Expr) -> Option<String> {
        if let Some((sym, l, r, ll, rl)) = bin_op(e) {
            if sym == "contains" && self.alt_spellings && self.coin(1, 2) {
                let a = self.child(r, 8)?;
                let b = self.child(l, 8)?;
                return Some(format!("{a} in {b}"));
            }
            let sym = if sym == "==" && self.alt_spellings && self.coin(1, 2) { "=" } else { sym };
            let a = self.child(l, ll)?;
            let b = self.child(r, rl)?;
            return Some(format!("{a} {sym} {b}"));
        }
        if let Some((name, alt, x)) = un_fn(e) {
            let n = if self.alt_spellings && self.coin(1, 2) { alt } else { name };
            let a = self.child(x, 0)?;
            return Some(format!("{n}({a})"));
        }
        Some(match e {
            Expr::Value(v) => match v {
                // composite literal values are written as list / map expressions
                Value::Vec(_) | Value::Map(_) => value_text(v)?,
                _ => value_text(v)?,
            },
            Expr::Reference(n) => {
                if !is_plain_ident(n) {
                    return None;
                }
                n.clone()
            }
            Expr::Symbol(n) => {
                if !is_plain_ident(n) {
                    return None;
                }
                format!(":{n}")
            }
            Expr::Function(n, x) => {
                if !is_plain_ident(n) {
                    return None;
                }
                format!("{n}({})", self.child(x, 0)?)
            }
            Expr::Index(l, idx) => {
                // the left operand must not fuse with ".<digits>" into a float/decimal literal
                let mut left = self.child(l, 8)?;
                match idx {
                    Index::Map(k) => {
                        if !is_plain_ident(k) {
                            return None;
                        }
                        format!("{left}.{k}")
                    }
                    Index::Vec(i) => {
                        let fuses = matches!(**l, Expr::Value(Value::Float(_)) | Expr::Value(Value::Decimal(_))) || matches!(&**l, Expr::Reference(n) if n == "f" || n == "d");
                        if fuses && !left.starts_with('(') {
                            left = format!("({left})");
                        }
                        format!("{left}.{i}")
                    }
                }
            }
            Expr::If(c, t, f) => {
                let c = self.child(c, 0)?;
                let t = self.child(t, 0)?;
                let f = self.child(f, 0)?;
                format!("if {c} then {t} else {f}")
            }
            Expr::Vec(items) => {
                let mut parts = vec![];
                for it in items {
                    parts.push(self.child(it, 0)?);
                }
                let trailing = if !parts.is_empty() && self.alt_spellings && self.coin(1, 4) { "," } else { "" };
                format!("[{}{trailing}]", parts.join(", "))
            }
            Expr::Map(items) => {
                let mut parts = vec![];
                for (k, it) in items {
                    if !is_plain_ident(k) {
                        return None;
                    }
                    parts.push(format!("{k}: {}", self.child(it, 0)?));
                }
                format!("{{{}}}", parts.join(", "))
            }
            Expr::Neg(x) => {
                let a = self.child(x, 7)?;
                // "- -x" must not become "--x"? ("--" is not a token, two OP_SUB lex fine) but
                // "-i5" after "i" … keep a space-free form: -<operand>
                format!("-{a}")
            }
            Expr::Not(x) => format!("!{}", self.child(x, 7)?),
            _ => unreachable!(),
        })
    }
}

pub fn to_text(e: &Expr, parens: Parens) -> Option<String> {
    Printer { parens, rng: None, alt_spellings: false }.print(e)
}

pub fn to_text_random(e: &Expr, rng: &mut Rng) -> Option<String> {
    Printer { parens: Parens::Random, rng: Some(rng), alt_spellings: true }.print(e)
}
