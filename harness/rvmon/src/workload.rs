//! Evaluation workloads shared by C01 and C02: the exhaustive depth-1 product (every node kind ×
//! the whole boundary pool), directed depth-2 arithmetic chains, random typed compositions and the
//! text route (harness printer -> `Expr::parse`).

use crate::core::Ctx;
use crate::gen::{std_facts, Gen, GenCfg, BINARY, UNARY};
use crate::pools::{pool, small_pool, ty, Pool};
use reval::expr::{Expr, Index};
use reval::value::Value;
use std::collections::BTreeMap;

pub struct Case<'a> {
    pub expr: &'a Expr,
    pub facts: &'a Value,
    /// cell name for depth-1 cases ("add(Int,Int)"), empty for compositions
    pub cell: String,
    pub family: &'static str,
}

fn facts_ab(a: &Value, b: &Value) -> Value {
    let mut m = BTreeMap::new();
    m.insert("a".to_string(), a.clone());
    m.insert("b".to_string(), b.clone());
    Value::Map(m)
}

/// Every node kind at depth 1 over the whole pool. `judge` sees every case this shard owns.
pub fn depth1(ctx: &mut Ctx, pool: &Pool, judge: &mut dyn FnMut(&mut Ctx, Case)) {
    let none = Value::None;
    let n = pool.all.len();
    // unary built-ins
    for (name, ctor) in UNARY.iter() {
        for v in &pool.all {
            if !ctx.mine() {
                continue;
            }
            let e = ctor(Expr::value(v.clone()));
            judge(ctx, Case { expr: &e, facts: &none, cell: format!("{name}({})", ty(v)), family: "depth1-unary" });
        }
    }
    // binary operators, literal operands
    for (name, ctor) in BINARY.iter() {
        for i in 0..n {
            for j in 0..n {
                if !ctx.mine() {
                    continue;
                }
                let (a, b) = (&pool.all[i], &pool.all[j]);
                let cell = format!("{name}({},{})", ty(a), ty(b));
                // one case in 16 passes the operands through the input map instead of literals,
                // one in 16 through `facts` itself (non-map input)
                match (i * 31 + j) % 16 {
                    0 => {
                        let f = facts_ab(a, b);
                        let e = ctor(Expr::reff("a"), Expr::reff("b"));
                        judge(ctx, Case { expr: &e, facts: &f, cell, family: "depth1-binary-via-input-map" });
                    }
                    1 => {
                        let e = ctor(Expr::reff("facts"), Expr::value(b.clone()));
                        judge(ctx, Case { expr: &e, facts: a, cell, family: "depth1-binary-via-facts" });
                    }
                    _ => {
                        let e = ctor(Expr::value(a.clone()), Expr::value(b.clone()));
                        judge(ctx, Case { expr: &e, facts: &none, cell, family: "depth1-binary" });
                    }
                }
            }
        }
    }
    // if: every pool value as condition
    for v in &pool.all {
        if !ctx.mine() {
            continue;
        }
        let e = Expr::iif(v.clone(), Expr::value(1), Expr::value(2)); // `impl Into<Expr>`: exercises From<Value> for Expr
        judge(ctx, Case { expr: &e, facts: &none, cell: format!("if({})", ty(v)), family: "depth1-if" });
    }
    // index steps
    for v in &pool.all {
        for idx in [Index::from("a"), Index::from("missing"), Index::from(0usize), Index::from(1usize), Index::from(usize::MAX)] {
            if !ctx.mine() {
                continue;
            }
            let cell = format!("{}({})", if matches!(idx, Index::Map(_)) { "field" } else { "index" }, ty(v));
            let e = Expr::index(Expr::value(v.clone()), idx);
            judge(ctx, Case { expr: &e, facts: &none, cell, family: "depth1-index" });
        }
    }
    // references against every input shape
    for v in &pool.all {
        for name in ["a", "facts", "missing", "A"] {
            if !ctx.mine() {
                continue;
            }
            let e = Expr::reff(name);
            judge(ctx, Case { expr: &e, facts: v, cell: format!("ref-{name}({})", ty(v)), family: "depth1-reference" });
        }
    }
    // unknown symbol / function (no ruleset behind Expr::evaluate)
    if ctx.mine() {
        let e = Expr::symbol("nosuch");
        judge(ctx, Case { expr: &e, facts: &none, cell: "symbol(unknown)".into(), family: "depth1-symbol" });
    }
    for v in &pool.all {
        if !ctx.mine() {
            continue;
        }
        let e = Expr::func("nosuch", Expr::value(v.clone()));
        judge(ctx, Case { expr: &e, facts: &none, cell: format!("call-unknown({})", ty(v)), family: "depth1-call" });
    }
    // list / map constructors
    for v in &pool.all {
        if !ctx.mine() {
            continue;
        }
        let e = Expr::Vec(vec![Expr::value(v.clone()), Expr::neg(Expr::value(v.clone()))]);
        judge(ctx, Case { expr: &e, facts: &none, cell: format!("list({})", ty(v)), family: "depth1-list" });
        let mut m = BTreeMap::new();
        m.insert("z".to_string(), Expr::value(v.clone()));
        m.insert("a".to_string(), Expr::not(Expr::value(v.clone())));
        let e = Expr::Map(m);
        judge(ctx, Case { expr: &e, facts: &none, cell: format!("map({})", ty(v)), family: "depth1-map" });
    }
}

/// op2(op1(a, b), c) and op2(c, op1(a, b)) over same-type boundary values: feeds boundary results
/// into a second operator ((MAX-1)+1+1, -(MIN+1)-1, …).
pub fn chains(ctx: &mut Ctx, judge: &mut dyn FnMut(&mut Ctx, Case)) {
    let none = Value::None;
    let sp = small_pool();
    let arith: Vec<&(&str, crate::gen::BinCtor)> = BINARY.iter().filter(|(n, _)| ["add", "sub", "mult", "div", "rem"].contains(n)).collect();
    for t in ["Int", "Float", "Decimal"] {
        let mut vals: Vec<Value> = sp.iter().filter(|v| ty(v) == t).cloned().collect();
        match t {
            "Int" => vals.extend([Value::Int(i128::MAX - 1), Value::Int(i128::MIN + 1), Value::Int(2)]),
            "Decimal" => vals.extend([Value::Decimal(rust_decimal::Decimal::MIN), Value::Decimal(rust_decimal::Decimal::new(2, 0)), Value::Decimal(rust_decimal::Decimal::new(-1, 0))]),
            _ => {}
        }
        for (_, op1) in &arith {
            for (_, op2) in &arith {
                for a in &vals {
                    for b in &vals {
                        for c in &vals {
                            if !ctx.mine() {
                                continue;
                            }
                            let inner = op1(Expr::value(a.clone()), Expr::value(b.clone()));
                            let e = op2(inner.clone(), Expr::value(c.clone()));
                            judge(ctx, Case { expr: &e, facts: &none, cell: String::new(), family: "chain-left" });
                            let e = op2(Expr::value(c.clone()), Expr::neg(inner));
                            judge(ctx, Case { expr: &e, facts: &none, cell: String::new(), family: "chain-right-neg" });
                        }
                    }
                }
            }
        }
    }
    // date arithmetic chains
    let dts: Vec<Value> = crate::pools::datetimes().into_iter().map(Value::DateTime).collect();
    let durs: Vec<Value> = crate::pools::durations().into_iter().map(Value::Duration).collect();
    for a in &dts {
        for b in &durs {
            for c in &durs {
                if !ctx.mine() {
                    continue;
                }
                let e = Expr::sub(Expr::add(Expr::value(a.clone()), Expr::value(b.clone())), Expr::value(c.clone()));
                judge(ctx, Case { expr: &e, facts: &none, cell: String::new(), family: "chain-date" });
                let e = Expr::add(Expr::value(a.clone()), Expr::sub(Expr::value(b.clone()), Expr::value(c.clone())));
                judge(ctx, Case { expr: &e, facts: &none, cell: String::new(), family: "chain-date" });
            }
        }
    }
    for a in &dts {
        for b in &dts {
            for c in &durs {
                if !ctx.mine() {
                    continue;
                }
                let e = Expr::sub(Expr::sub(Expr::value(a.clone()), Expr::value(b.clone())), Expr::value(c.clone()));
                judge(ctx, Case { expr: &e, facts: &none, cell: String::new(), family: "chain-date" });
            }
        }
    }
}

/// Seeded random typed compositions; `per_shard` cases for this shard.
pub fn random(ctx: &mut Ctx, pool: &Pool, per_shard: usize, max_depth: usize, judge: &mut dyn FnMut(&mut Ctx, Case)) {
    let mut rng = ctx.rng.clone();
    let mut facts = Value::None;
    let mut cfg = GenCfg { fns: vec![], symbols: vec![], fields: vec![], chaos: 60 };
    for i in 0..per_shard {
        if i % 500 == 0 {
            let shape = rng.below(10);
            if shape < 8 {
                let (f, fields) = std_facts(pool, &mut rng);
                facts = f;
                cfg.fields = fields;
            } else if shape == 8 {
                facts = Value::None;
                cfg.fields = vec![];
            } else {
                facts = pool.all[rng.below(pool.all.len())].clone();
                cfg.fields = vec![];
            }
        }
        let depth = 2 + rng.below(max_depth - 1);
        let want = crate::pools::TYPES[rng.below(10)];
        let e = Gen { rng: &mut rng, pool, cfg: &cfg }.gen(want, depth);
        judge(ctx, Case { expr: &e, facts: &facts, cell: String::new(), family: "random" });
    }
    ctx.rng = rng;
}

/// Depth-1 cases over RANDOM operands (not pool boundaries): every unary built-in and binary operator with
/// operands of the types it supports (plus the occasional mismatch), `per_shard` cases.
pub fn random_operands(ctx: &mut Ctx, per_shard: usize, judge: &mut dyn FnMut(&mut Ctx, Case)) {
    use crate::pools::{random_value, TYPES};
    let mut rng = ctx.rng.clone();
    let none = Value::None;
    for i in 0..per_shard {
        if i % 3 == 0 {
            let (name, ctor) = UNARY[rng.below(UNARY.len())];
            let t = TYPES[rng.below(9)];
            let v = random_value(&mut rng, t);
            let e = ctor(Expr::value(v.clone()));
            judge(ctx, Case { expr: &e, facts: &none, cell: format!("{name}({})", ty(&v)), family: "random-operands-unary" });
        } else {
            let (name, ctor) = BINARY[rng.below(BINARY.len())];
            let a = TYPES[rng.below(9)];
            // same type three times out of four (that is where the supported cells are), sometimes related values
            let b = if rng.chance(3, 4) { a } else { TYPES[rng.below(9)] };
            let x = random_value(&mut rng, a);
            let y = match rng.below(6) {
                0 => x.clone(),
                1 => match (&x, b) {
                    (Value::Int(n), "Int") => Value::Int(n.wrapping_add(rng.range(-2, 2) as i128)),
                    (Value::String(s), "String") => Value::String(s.chars().skip(rng.below(s.chars().count().max(1))).take(1 + rng.below(5)).collect()),
                    (Value::Vec(v), _) if !v.is_empty() => v[rng.below(v.len())].clone(),
                    _ => random_value(&mut rng, b),
                },
                _ => random_value(&mut rng, b),
            };
            let e = ctor(Expr::value(x.clone()), Expr::value(y.clone()));
            judge(ctx, Case { expr: &e, facts: &none, cell: format!("{name}({},{})", ty(&x), ty(&y)), family: "random-operands-binary" });
        }
    }
    ctx.rng = rng;
}

/// String-valued operands generated per function family rather than drawn from a pool: small-alphabet
/// haystack/needle pairs, every whitespace / control character around a word, every low character through the
/// case mappings, numeric-looking and date-looking strings with signs, padding and out-of-range fields.
pub fn string_families(ctx: &mut Ctx, judge: &mut dyn FnMut(&mut Ctx, Case)) {
    ctx.align();
    let none = Value::None;
    let s = |x: &str| Expr::value(x.to_string());
    // (i) contains: all pairs of strings over {a, b} up to length 5, and over {Σ, Α} up to length 3
    let mut words: Vec<String> = vec![String::new()];
    let mut frontier = vec![String::new()];
    for _ in 0..5 {
        let mut next = vec![];
        for w in &frontier {
            for c in ['a', 'b'] {
                next.push(format!("{w}{c}"));
            }
        }
        words.extend(next.iter().cloned());
        frontier = next;
    }
    for a in ["Σ", "Α", "ΣΣ", "ΣΑ", "ΑΣ", "ΣΣΑ", "ΣΑΣ", "ΑΣΣ", "1001", "10010012", "10012", "0012"] {
        words.push(a.to_string());
    }
    for h in &words {
        for n in &words {
            if !ctx.mine() {
                continue;
            }
            let e = Expr::contains(s(h), s(n));
            judge(ctx, Case { expr: &e, facts: &none, cell: "contains(String,String)".into(), family: "strings-small-alphabet-contains" });
        }
    }
    // (ii) trim / uppercase / lowercase: every character below U+0250 plus Unicode spaces and special-casing characters, in four positions
    let mut chars: Vec<char> = (0u32..0x250).filter_map(char::from_u32).collect();
    chars.extend("\u{1680}\u{2000}\u{2001}\u{2002}\u{2003}\u{2004}\u{2005}\u{2006}\u{2007}\u{2008}\u{2009}\u{200a}\u{200b}\u{2028}\u{2029}\u{202f}\u{205f}\u{3000}\u{feff}ΣσςΐΰͅἈᾈᾳῼﬁﬂﬃǅǈǋǲİıſẞ".chars());
    for c in chars {
        if !ctx.mine() {
            continue;
        }
        for text in [format!("{c}"), format!("{c}a b{c}"), format!("x{c}"), format!("{c}x"), format!("a{c}b {c}"), format!("xΣ{c}"), format!("{c}Σ")] {
            for f in [Expr::trim as fn(Expr) -> Expr, Expr::uppercase, Expr::lowercase] {
                let e = f(s(&text));
                judge(ctx, Case { expr: &e, facts: &none, cell: String::new(), family: "strings-every-low-character" });
            }
        }
    }
    // (iii) numeric-looking strings through int / float / dec
    let mut rng = ctx.rng.clone();
    let n = ctx.tier.of(3_000, 60_000);
    for _ in 0..n {
        let sign = *rng.pick(&["", "", "+", "-", "++", " -", "- "]);
        let zeros = "0".repeat(match rng.below(4) { 0 => 0, 1 => rng.below(4), 2 => 30 + rng.below(30), _ => rng.below(80) });
        let digits: String = (0..rng.below(45)).map(|_| char::from(b'0' + rng.below(10) as u8)).collect();
        let frac = match rng.below(4) { 0 => String::new(), 1 => ".".to_string(), _ => format!(".{}", (0..rng.below(35)).map(|_| char::from(b'0' + rng.below(10) as u8)).collect::<String>()) };
        let exp = match rng.below(5) { 0 => format!("e{}", rng.range(-400, 400)), 1 => format!("E+{}", rng.below(30)), 2 => format!("e{}", "0".repeat(rng.below(6))), _ => String::new() };
        let pad = *rng.pick(&["", "", "", " ", "\t", "\u{a0}", "_", "\n"]);
        let text = format!("{pad}{sign}{zeros}{digits}{frac}{exp}{pad}");
        for f in [Expr::int as fn(Expr) -> Expr, Expr::float, Expr::dec] {
            let e = f(s(&text));
            judge(ctx, Case { expr: &e, facts: &none, cell: String::new(), family: "strings-numeric-looking" });
        }
    }
    // (iv) date-looking strings through datetime: a valid RFC 3339 skeleton with one or two fields disturbed
    for _ in 0..n {
        let mut fields: Vec<String> = vec![format!("{:04}", rng.below(10_000)), format!("{:02}", 1 + rng.below(12)), format!("{:02}", 1 + rng.below(28)), format!("{:02}", rng.below(24)), format!("{:02}", rng.below(60)), format!("{:02}", rng.below(60))];
        for _ in 0..rng.below(3) {
            let i = rng.below(6);
            fields[i] = match rng.below(9) {
                0 => format!("+{}", &fields[i][1..]),
                1 => format!("-{}", &fields[i][1..]),
                2 => format!(" {}", &fields[i][1..]),
                3 => "00".into(),
                4 => "99".into(),
                5 => format!("{}0", fields[i]),
                6 => fields[i][1..].to_string(),
                7 => "60".into(),
                _ => "29".into(),
            };
        }
        let frac = match rng.below(4) { 0 => format!(".{}", rng.below(1_000_000_000)), 1 => ".".into(), _ => String::new() };
        let tz = *rng.pick(&["Z", "z", "+00:00", "-00:00", "+02:00", "+0200", "+24:00", "", " UTC", "+02"]);
        let sep = *rng.pick(&["T", "T", "t", " ", "_"]);
        let text = format!("{}-{}-{}{sep}{}:{}:{}{frac}{tz}", fields[0], fields[1], fields[2], fields[3], fields[4], fields[5]);
        let e = Expr::datetime(s(&text));
        judge(ctx, Case { expr: &e, facts: &none, cell: String::new(), family: "strings-date-looking" });
        let e = Expr::year(Expr::datetime(s(&text)));
        judge(ctx, Case { expr: &e, facts: &none, cell: String::new(), family: "strings-date-looking" });
    }
    ctx.rng = rng;
}

/// Expressions nested 100 .. 600 levels deep (far below the depths at which the recursive evaluator runs out of stack, see C19): the
/// composition of sub-results is the same at every depth.
pub fn deep_expressions(ctx: &mut Ctx, judge: &mut dyn FnMut(&mut Ctx, Case)) {
    ctx.align();
    let facts = Value::Map([("a".to_string(), Value::Int(3)), ("n".to_string(), Value::None), ("t".to_string(), Value::Bool(true))].into_iter().collect());
    for depth in [100usize, 127, 128, 129, 200, 255, 256, 257, 400, 512, 513, 600] {
        if !ctx.mine() {
            continue;
        }
        let fold = |leaf: Expr, f: &dyn Fn(Expr, usize) -> Expr| (0..depth).fold(leaf, |e, i| f(e, i));
        let shapes: Vec<Expr> = vec![
            fold(Expr::reff("a"), &|e, _| Expr::add(e, Expr::value(1))),
            fold(Expr::reff("a"), &|e, _| Expr::add(Expr::value(1), e)),
            fold(Expr::reff("a"), &|e, i| if i % 2 == 0 { Expr::neg(e) } else { Expr::sub(Expr::value(0), e) }),
            fold(Expr::reff("t"), &|e, i| if i % 2 == 0 { Expr::not(e) } else { Expr::and(Expr::value(true), e) }),
            fold(Expr::reff("t"), &|e, _| Expr::or(Expr::value(false), e)),
            fold(Expr::reff("a"), &|e, _| Expr::iif(Expr::reff("t"), e, Expr::value(0))),
            fold(Expr::reff("a"), &|e, _| Expr::iif(Expr::value(false), Expr::value(0), e)),
            fold(Expr::reff("a"), &|e, _| Expr::index(Expr::Vec(vec![Expr::value(0), e]), Index::from(1usize))),
            fold(Expr::reff("a"), &|e, _| Expr::index(Expr::Map([("k".to_string(), e)].into_iter().collect()), Index::from("k"))),
            fold(Expr::reff("a"), &|e, _| Expr::int(e)),
            fold(Expr::reff("n"), &|e, i| if i % 2 == 0 { Expr::add(e, Expr::value(1)) } else { Expr::uppercase(e) }),
            fold(Expr::reff("a"), &|e, _| Expr::mult(e, Expr::value(2))),
            fold(Expr::reff("a"), &|e, i| if i % 3 == 0 { Expr::bitwise_and(e, Expr::value(-1)) } else { Expr::bitwise_or(e, Expr::value(0)) }),
            fold(Expr::reff("a"), &|e, _| Expr::eq(Expr::eq(e, Expr::value(3)), Expr::value(true))),
            fold(Expr::Vec(vec![]), &|e, _| Expr::Vec(vec![e])),
            fold(Expr::reff("facts"), &|e, _| Expr::index(e, Index::from("missing"))),
        ];
        for e in &shapes {
            judge(ctx, Case { expr: e, facts: &facts, cell: String::new(), family: "deep-expressions" });
        }
    }
}

/// Operands beyond every small size: strings of 1 KiB .. 1 MiB (with multi-byte characters at and around power-of-two byte offsets)
/// through every string operator, lists of 1000 .. 70 000 elements and maps of 5000 keys through membership, indexing and equality.
pub fn big_operands(ctx: &mut Ctx, judge: &mut dyn FnMut(&mut Ctx, Case)) {
    ctx.align();
    let none = Value::None;
    let s = |x: String| Expr::value(x);
    for b in [1_024usize, 4_096, 8_192, 65_536, 1_048_576] {
        for pad in [b - 3, b - 2, b - 1, b, b + 1] {
            if !ctx.mine() {
                continue;
            }
            let text = format!("{}ßΣ€😀{}ǆσ ", " aB".repeat(pad / 3), "x".repeat(b / 3));
            let text = &text[..];
            for f in [Expr::trim as fn(Expr) -> Expr, Expr::uppercase, Expr::lowercase, Expr::int, Expr::float, Expr::dec, Expr::datetime, Expr::duration, Expr::neg, Expr::some] {
                let e = f(s(text.to_string()));
                judge(ctx, Case { expr: &e, facts: &none, cell: String::new(), family: "big-operands-strings" });
            }
            let needle_end: String = text.chars().rev().take(9).collect::<Vec<_>>().into_iter().rev().collect();
            for (h, n) in [(text.to_string(), needle_end.clone()), (text.to_string(), "😀x".to_string()), (text.to_string(), "Bx".to_string()), (needle_end.clone(), text.to_string()), (text.to_string(), text.to_string()), (text.to_string(), format!("{text}!"))] {
                for e in [Expr::contains(s(h.clone()), s(n.clone())), Expr::eq(s(h.clone()), s(n.clone())), Expr::lt(s(h.clone()), s(n.clone())), Expr::gte(s(h.clone()), s(n.clone())), Expr::add(s(h.clone()), s(n.clone()))] {
                    judge(ctx, Case { expr: &e, facts: &none, cell: String::new(), family: "big-operands-strings" });
                }
            }
            // a numeric string padded to this length
            let padded = format!("{}42", "0".repeat(pad));
            for f in [Expr::int as fn(Expr) -> Expr, Expr::float, Expr::dec] {
                let e = f(s(padded.clone()));
                judge(ctx, Case { expr: &e, facts: &none, cell: String::new(), family: "big-operands-strings" });
            }
        }
    }
    for n in [255usize, 256, 1_000, 4_096, 65_535, 65_536, 70_000] {
        if !ctx.mine() {
            continue;
        }
        let list: Vec<Value> = (0..n).map(|i| if i % 1000 == 999 { Value::String(format!("s{i}")) } else { Value::Int(i as i128) }).collect();
        let mut other = list.clone();
        *other.last_mut().unwrap() = Value::Int(-1);
        let m: std::collections::BTreeMap<String, Value> = (0..n.min(5_000)).map(|i| (format!("key{i:05}"), Value::Int(i as i128))).collect();
        let facts = Value::Map([("l".to_string(), Value::Vec(list.clone())), ("o".to_string(), Value::Vec(other)), ("m".to_string(), Value::Map(m))].into_iter().collect());
        let l = || Expr::reff("l");
        let exprs = vec![
            Expr::contains(l(), Expr::value(0)), Expr::contains(l(), Expr::value((n - 1) as i128)), Expr::contains(l(), Expr::value(n as i128)), Expr::contains(l(), Expr::value(format!("s{}", 999))), Expr::contains(l(), Expr::value(0.0)),
            Expr::contains(Expr::reff("m"), Expr::value("key00000".to_string())), Expr::contains(Expr::reff("m"), Expr::value(format!("key{:05}", n.min(5_000) - 1))), Expr::contains(Expr::reff("m"), Expr::value(format!("key{:05}", n.min(5_000)))),
            Expr::eq(l(), l()), Expr::eq(l(), Expr::reff("o")), Expr::neq(l(), Expr::reff("o")), Expr::eq(Expr::reff("m"), Expr::reff("m")),
            Expr::index(l(), Index::from(n - 1)), Expr::index(l(), Index::from(n)), Expr::index(l(), Index::from(0usize)), Expr::index(Expr::reff("m"), Index::from(format!("key{:05}", n.min(5_000) / 2).as_str())),
            Expr::add(l(), Expr::reff("o")), Expr::lt(l(), Expr::reff("o")), Expr::some(l()), Expr::neg(l()),
        ];
        for e in &exprs {
            judge(ctx, Case { expr: e, facts: &facts, cell: String::new(), family: "big-operands-collections" });
        }
    }
}

pub fn the_pool() -> Pool {
    pool()
}
