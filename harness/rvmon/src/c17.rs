//! C17 — conversions between Value and Rust types are lossless or fail: round trips return the
//! original, narrowing succeeds exactly within range (else overflow error), a wrong kind is a type
//! error carrying the offending value, collections convert iff every element does.

use crate::core::{floor, guard, Ctx, Finish, Merged, Property, Tier};
use crate::evalcommon::clip;
use crate::pools::{pool, ty};
use crate::refeval::same;
use crate::rng::fnv;
use chrono::{DateTime, TimeDelta, Utc};
use reval::value::Value;
use reval::Error;
use rust_decimal::Decimal;
use serde_json::json;
use std::collections::{BTreeMap, HashMap};

pub const PROP: Property = Property { id: "C17", run, finish, shards: |_| 16, expect_s: |t| t.of(10, 100) };

#[derive(Debug)]
enum Got<T> {
    Ok(T),
    Overflow,
    WrongType(Value),
    Other(String),
    Panic(String),
}

fn got<T>(r: Result<Result<T, Error>, String>) -> Got<T> {
    match r {
        Ok(Ok(v)) => Got::Ok(v),
        Ok(Err(Error::NumericOverflow(_))) => Got::Overflow,
        Ok(Err(Error::UnexpectedValueType(v, _))) => Got::WrongType(v),
        Ok(Err(e)) => Got::Other(e.to_string()),
        Err(p) => Got::Panic(p),
    }
}

fn bad(ctx: &mut Ctx, target: &str, class: &str, what: String, src: &Value) {
    ctx.violation(format!("C17 {class} {target}"), what, json!({"target_type": target, "source_value": clip(format!("{src:?}"), 400)}));
}

/// extraction of integer type $t from every interesting Value
macro_rules! int_extract {
    ($ctx:expr, $t:ty, $name:expr, $ints:expr, $others:expr) => {{
        for n in $ints.iter() {
            let n: i128 = *n;
            if !$ctx.mine() {
                continue;
            }
            $ctx.count();
            let v = Value::Int(n);
            let in_range = n >= <$t>::MIN as i128 && (n as i128) <= (<$t>::MAX as u128).min(i128::MAX as u128) as i128;
            $ctx.hit(if in_range { concat!("narrow-in-range:", $name) } else { concat!("narrow-out-of-range:", $name) });
            $ctx.nontrivial(fnv(format!("{}|{n}", $name).as_bytes()));
            let g = got(guard(|| <$t>::try_from(v.clone())));
            $ctx.sample(if in_range { concat!("narrow-in-range:", $name) } else { concat!("narrow-out-of-range:", $name) }, || json!({"extract": $name, "from": format!("{v:?}"), "observed": format!("{g:?}")}));
            match g {
                Got::Ok(x) => {
                    if !in_range {
                        bad($ctx, $name, "out-of-range-accepted", format!("Int({n}) extracted as {x} (wrapped / truncated)"), &v);
                    } else if x as i128 != n {
                        bad($ctx, $name, "wrong-number", format!("Int({n}) extracted as {x}"), &v);
                    }
                }
                Got::Overflow => {
                    if in_range {
                        bad($ctx, $name, "in-range-rejected", format!("Int({n}) fits but was rejected with an overflow error"), &v);
                    }
                }
                other => bad($ctx, $name, "unexpected-outcome", format!("Int({n}): {other:?}"), &v),
            }
        }
        // wrong kinds: every non-Int value of the pool
        for v in $others.iter().filter(|v| !matches!(v, Value::Int(_))) {
            if !$ctx.mine() {
                continue;
            }
            $ctx.count();
            $ctx.hit(concat!("wrong-kind:", $name));
            match got(guard(|| <$t>::try_from(v.clone()))) {
                Got::WrongType(o) if same(&o, v) => {}
                other => bad($ctx, $name, "wrong-kind-not-a-type-error-with-the-value", format!("extracting from {}: {other:?}", ty(v)), v),
            }
        }
    }};
}

/// From<$t> then TryFrom back
macro_rules! int_roundtrip {
    ($ctx:expr, $t:ty, $name:expr, $vals:expr) => {{
        for x in $vals {
            let x: $t = x;
            if !$ctx.mine() {
                continue;
            }
            $ctx.count();
            $ctx.hit(concat!("roundtrip:", $name));
            let v = Value::from(x);
            if !matches!(&v, Value::Int(n) if *n == x as i128) {
                bad($ctx, $name, "into-value-altered-the-number", format!("{x} became {v:?}"), &v);
                continue;
            }
            match got(guard(|| <$t>::try_from(v.clone()))) {
                Got::Ok(y) if y == x => {}
                other => bad($ctx, $name, "roundtrip", format!("{x} -> {v:?} -> {other:?}"), &v),
            }
        }
    }};
}

fn scalar_extract<T: TryFrom<Value, Error = Error> + PartialEq + std::fmt::Debug>(ctx: &mut Ctx, name: &str, all: &[Value], accept: impl Fn(&Value) -> Option<T>) {
    for v in all {
        if !ctx.mine() {
            continue;
        }
        ctx.count();
        ctx.nontrivial(fnv(format!("{name}|{v:?}").as_bytes()));
        let r = got(guard(|| T::try_from(v.clone())));
        ctx.sample(&format!("extract:{name}:{}", ty(v)), || json!({"extract": name, "from": clip(format!("{v:?}"), 120), "observed": clip(format!("{r:?}"), 160)}));
        match accept(v) {
            Some(want) => {
                ctx.hit(&format!("roundtrip:{name}"));
                match r {
                    Got::Ok(x) if x == want => {}
                    other => bad(ctx, name, "roundtrip", format!("{other:?}"), v),
                }
            }
            None => {
                ctx.hit(&format!("wrong-kind:{name}"));
                match r {
                    Got::WrongType(o) if same(&o, v) => {}
                    other => bad(ctx, name, "wrong-kind-not-a-type-error-with-the-value", format!("extracting from {}: {other:?}", ty(v)), v),
                }
            }
        }
    }
}

fn boundaries_i128(min: i128, max: i128) -> Vec<i128> {
    let mut v = vec![];
    for b in [min, max] {
        for d in -300i128..=300 {
            if let Some(x) = b.checked_add(d) {
                v.push(x);
            }
        }
    }
    v.extend([0, 1, -1, i128::MAX, i128::MIN, i128::MAX - 1, i128::MIN + 1]);
    v
}

fn collections(ctx: &mut Ctx) {
    // lists and maps of length <= 6 with one non-convertible element at each position
    let good = |i: usize| Value::Int(i as i128 + 1);
    let bads: Vec<(&str, Value)> = vec![("wrong-kind", Value::String("x".into())), ("out-of-range", Value::Int(300)), ("none", Value::None), ("negative", Value::Int(-1))];
    for len in 0..=6usize {
        for pos in 0..=len {
            for (bname, b) in &bads {
                if !ctx.mine() {
                    continue;
                }
                // pos == len: no bad element at all
                let items: Vec<Value> = (0..len).map(|i| if i == pos { b.clone() } else { good(i) }).collect();
                let has_bad = pos < len;
                let src = Value::Vec(items.clone());
                ctx.count();
                ctx.nontrivial(fnv(format!("vec|{len}|{pos}|{bname}").as_bytes()));
                ctx.hit(if has_bad { "collections:vec-with-bad-element" } else { "collections:vec-all-good" });
                let r = got(guard(|| Vec::<u8>::try_from(src.clone())));
                match (&r, has_bad, *bname) {
                    (Got::Ok(xs), false, _) if xs.iter().map(|x| *x as i128).eq((0..len).map(|i| i as i128 + 1)) => {}
                    (Got::WrongType(o), true, "wrong-kind") | (Got::WrongType(o), true, "none") if same(o, b) => {}
                    (Got::Overflow, true, "out-of-range") | (Got::Overflow, true, "negative") => {}
                    _ => bad(ctx, "Vec<u8>", "collection", format!("len {len}, bad element {bname} at {pos}: {r:?}"), &src),
                }
                // the same through maps (keys k0..k5: the failing element is at key k<pos>)
                let m: BTreeMap<String, Value> = items.iter().enumerate().map(|(i, v)| (format!("k{i}"), v.clone())).collect();
                let src = Value::Map(m);
                for which in ["HashMap<String,u8>", "BTreeMap<String,u8>"] {
                    ctx.count();
                    ctx.hit(if has_bad { "collections:map-with-bad-element" } else { "collections:map-all-good" });
                    let r: Got<Vec<(String, u8)>> = if which.starts_with("Hash") {
                        match got(guard(|| HashMap::<String, u8>::try_from(src.clone()))) {
                            Got::Ok(h) => {
                                let mut v: Vec<(String, u8)> = h.into_iter().collect();
                                v.sort();
                                Got::Ok(v)
                            }
                            Got::Overflow => Got::Overflow,
                            Got::WrongType(v) => Got::WrongType(v),
                            Got::Other(s) => Got::Other(s),
                            Got::Panic(p) => Got::Panic(p),
                        }
                    } else {
                        match got(guard(|| BTreeMap::<String, u8>::try_from(src.clone()))) {
                            Got::Ok(h) => Got::Ok(h.into_iter().collect()),
                            Got::Overflow => Got::Overflow,
                            Got::WrongType(v) => Got::WrongType(v),
                            Got::Other(s) => Got::Other(s),
                            Got::Panic(p) => Got::Panic(p),
                        }
                    };
                    match (&r, has_bad, *bname) {
                        (Got::Ok(xs), false, _) if xs.len() == len && xs.iter().enumerate().all(|(i, (k, x))| *k == format!("k{i}") && *x as usize == i + 1) => {}
                        (Got::WrongType(o), true, "wrong-kind") | (Got::WrongType(o), true, "none") if same(o, b) => {}
                        (Got::Overflow, true, "out-of-range") | (Got::Overflow, true, "negative") => {}
                        _ => bad(ctx, which, "collection", format!("len {len}, bad element {bname} at k{pos}: {r:?}"), &src),
                    }
                }
            }
        }
    }
    // not a collection at all, and collection round trips
    let p = pool();
    for v in &p.all {
        if !ctx.mine() {
            continue;
        }
        ctx.count();
        if !matches!(v, Value::Vec(_)) {
            match got(guard(|| Vec::<String>::try_from(v.clone()))) {
                Got::WrongType(o) if same(&o, v) => ctx.hit("wrong-kind:Vec"),
                other => bad(ctx, "Vec<String>", "wrong-kind-not-a-type-error-with-the-value", format!("{other:?}"), v),
            }
        }
        if let Value::Map(m) = v {
            // a map of values comes back entry for entry
            match got(guard(|| BTreeMap::<String, Value>::try_from(v.clone()))) {
                Got::Ok(b) if b.len() == m.len() && b.iter().zip(m.iter()).all(|((k1, x), (k2, y))| k1 == k2 && same(x, y)) => ctx.hit("roundtrip:BTreeMap<String,Value>"),
                other => bad(ctx, "BTreeMap<String,Value>", "roundtrip", format!("{other:?}"), v),
            }
            match got(guard(|| HashMap::<String, Value>::try_from(v.clone()))) {
                Got::Ok(h) if h.len() == m.len() && m.iter().all(|(k, y)| h.get(k).map(|x| same(x, y)).unwrap_or(false)) => ctx.hit("roundtrip:HashMap<String,Value>"),
                other => bad(ctx, "HashMap<String,Value>", "roundtrip", format!("{other:?}"), v),
            }
        }
        if !matches!(v, Value::Map(_)) {
            match got(guard(|| BTreeMap::<String, Value>::try_from(v.clone()))) {
                Got::WrongType(o) if same(&o, v) => ctx.hit("wrong-kind:BTreeMap"),
                other => bad(ctx, "BTreeMap<String,Value>", "wrong-kind-not-a-type-error-with-the-value", format!("{other:?}"), v),
            }
            match got(guard(|| HashMap::<String, Value>::try_from(v.clone()))) {
                Got::WrongType(o) if same(&o, v) => ctx.hit("wrong-kind:HashMap"),
                other => bad(ctx, "HashMap<String,Value>", "wrong-kind-not-a-type-error-with-the-value", format!("{other:?}"), v),
            }
            match got(guard(|| HashMap::<String, i64>::try_from(v.clone()))) {
                Got::WrongType(o) if same(&o, v) => {}
                other => bad(ctx, "HashMap<String,i64>", "wrong-kind-not-a-type-error-with-the-value", format!("{other:?}"), v),
            }
            match got(guard(|| BTreeMap::<String, i64>::try_from(v.clone()))) {
                Got::WrongType(o) if same(&o, v) => {}
                other => bad(ctx, "BTreeMap<String,i64>", "wrong-kind-not-a-type-error-with-the-value", format!("{other:?}"), v),
            }
        }
    }
    if ctx.mine() {
        // long and nested collections, with the one bad element far from both ends
        for len in [7usize, 33, 100, 1000, 5000, 65_535, 65_536, 200_000] {
            for bad_at in [None, Some(len / 2), Some(len - 1)] {
                ctx.count();
                ctx.hit("collections:long");
                let items: Vec<Value> = (0..len).map(|i| if Some(i) == bad_at { Value::Int(70_000) } else { Value::Int((i % 200) as i128) }).collect();
                let src = Value::Vec(items.clone());
                match (got(guard(|| Vec::<u16>::try_from(src.clone()))), bad_at) {
                    (Got::Ok(xs), None) if xs.len() == len && xs.iter().enumerate().all(|(i, x)| *x as usize == i % 200) => {}
                    (Got::Overflow, Some(_)) => {}
                    (other, _) => bad(ctx, "Vec<u16>", "collection", format!("len {len}, bad at {bad_at:?}: {}", clip(format!("{other:?}"), 200)), &Value::Int(len as i128)),
                }
                let m: BTreeMap<String, Value> = items.iter().enumerate().map(|(i, v)| (format!("k{i:06}"), v.clone())).collect();
                let src = Value::Map(m);
                match (got(guard(|| HashMap::<String, u16>::try_from(src.clone()))), bad_at) {
                    (Got::Ok(h), None) if h.len() == len && (0..len).all(|i| h.get(&format!("k{i:06}")).map(|x| *x as usize) == Some(i % 200)) => {}
                    (Got::Overflow, Some(_)) => {}
                    (other, _) => bad(ctx, "HashMap<String,u16>", "collection", format!("len {len}, bad at {bad_at:?}: {}", clip(format!("{other:?}"), 200)), &Value::Int(len as i128)),
                }
            }
        }
        // i128 values with special bit patterns through every integer extraction
        for n in [1i128 << 64, (1i128 << 64) - 1, 0x1_0000_0000, 0xFFFF_FFFF_0000_0000u64 as i128, -(1i128 << 64), (1i128 << 100) + (1 << 32), 1 << 16, 1 << 8, i128::MAX - ((1 << 64) - 1)] {
            ctx.count();
            let v = Value::Int(n);
            let fits = |lo: i128, hi: i128| n >= lo && n <= hi;
            let ok = matches!(got(guard(|| u8::try_from(v.clone()))), Got::Ok(_)) == fits(0, 255)
                && matches!(got(guard(|| i16::try_from(v.clone()))), Got::Ok(_)) == fits(i16::MIN as i128, i16::MAX as i128)
                && matches!(got(guard(|| u32::try_from(v.clone()))), Got::Ok(_)) == fits(0, u32::MAX as i128)
                && matches!(got(guard(|| i64::try_from(v.clone()))), Got::Ok(_)) == fits(i64::MIN as i128, i64::MAX as i128)
                && matches!(got(guard(|| u64::try_from(v.clone()))), Got::Ok(_)) == fits(0, u64::MAX as i128)
                && matches!(got(guard(|| u128::try_from(v.clone()))), Got::Ok(_)) == (n >= 0);
            if !ok {
                bad(ctx, "integer", "bit-pattern", format!("{n:#x}"), &v);
            }
        }
        // two hops: Vec<HashMap<String, Vec<u8>>>
        let two: Vec<HashMap<String, Vec<u8>>> = vec![HashMap::from([("a".to_string(), vec![1u8, 2]), ("b".to_string(), vec![])]), HashMap::new()];
        ctx.count();
        match got(guard(|| Vec::<HashMap<String, Vec<u8>>>::try_from(Value::from(two.clone())))) {
            Got::Ok(x) if x == two => ctx.hit("roundtrip:Vec<HashMap<String,Vec<u8>>>"),
            other => bad(ctx, "Vec<HashMap<String,Vec<u8>>>", "roundtrip", clip(format!("{other:?}"), 200), &Value::None),
        }
        let nested: Vec<Vec<u8>> = vec![vec![1, 2, 3], vec![], vec![255; 9]];
        ctx.count();
        match got(guard(|| Vec::<Vec<u8>>::try_from(Value::from(nested.clone())))) {
            Got::Ok(x) if x == nested => ctx.hit("roundtrip:Vec<Vec<u8>>"),
            other => bad(ctx, "Vec<Vec<u8>>", "roundtrip", format!("{other:?}"), &Value::None),
        }
        let bad_nested = Value::Vec(vec![Value::Vec(vec![Value::Int(1)]), Value::Vec(vec![Value::Int(1), Value::Int(256)])]);
        ctx.count();
        if !matches!(got(guard(|| Vec::<Vec<u8>>::try_from(bad_nested.clone()))), Got::Overflow) {
            bad(ctx, "Vec<Vec<u8>>", "collection", "a nested out-of-range element must fail the whole extraction".into(), &bad_nested);
        }
        let map_of_vecs: BTreeMap<String, Vec<i64>> = BTreeMap::from([("a".to_string(), vec![1, -2]), ("b".to_string(), vec![])]);
        ctx.count();
        match got(guard(|| BTreeMap::<String, Vec<i64>>::try_from(Value::from(map_of_vecs.clone())))) {
            Got::Ok(x) if x == map_of_vecs => ctx.hit("roundtrip:BTreeMap<String,Vec<i64>>"),
            other => bad(ctx, "BTreeMap<String,Vec<i64>>", "roundtrip", format!("{other:?}"), &Value::None),
        }
        let list = vec!["a".to_string(), "".to_string(), "ü".to_string()];
        ctx.count();
        ctx.hit("roundtrip:Vec<String>");
        match got(guard(|| Vec::<String>::try_from(Value::from(list.clone())))) {
            Got::Ok(x) if x == list => {}
            other => bad(ctx, "Vec<String>", "roundtrip", format!("{other:?}"), &Value::None),
        }
        let nested = vec![vec![1i64, -2], vec![], vec![i64::MAX]];
        ctx.count();
        ctx.hit("roundtrip:Vec<Vec<i64>>");
        match got(guard(|| Vec::<Vec<i64>>::try_from(Value::from(nested.clone())))) {
            Got::Ok(x) if x == nested => {}
            other => bad(ctx, "Vec<Vec<i64>>", "roundtrip", format!("{other:?}"), &Value::None),
        }
        let hm: HashMap<String, u32> = HashMap::from([("a".to_string(), 1u32), ("".to_string(), u32::MAX)]);
        ctx.count();
        ctx.hit("roundtrip:HashMap<String,u32>");
        match got(guard(|| HashMap::<String, u32>::try_from(Value::from(hm.clone())))) {
            Got::Ok(x) if x == hm => {}
            other => bad(ctx, "HashMap<String,u32>", "roundtrip", format!("{other:?}"), &Value::None),
        }
        let bm: BTreeMap<&str, f64> = BTreeMap::from([("x", 1.5f64), ("y", f64::NEG_INFINITY)]);
        ctx.count();
        ctx.hit("roundtrip:BTreeMap<String,f64>");
        match got(guard(|| BTreeMap::<String, f64>::try_from(Value::from(bm.clone())))) {
            Got::Ok(x) if x.len() == 2 && x["x"] == 1.5 && x["y"] == f64::NEG_INFINITY => {}
            other => bad(ctx, "BTreeMap<String,f64>", "roundtrip", format!("{other:?}"), &Value::None),
        }
        for (o, want) in [(Some(Value::Int(3)), Value::Int(3)), (None, Value::None)] {
            ctx.count();
            ctx.hit("roundtrip:Option<Value>");
            if !same(&Value::from(o.clone()), &want) {
                bad(ctx, "Option<Value>", "roundtrip", format!("{o:?}"), &want);
            }
        }
    }
}

fn run(ctx: &mut Ctx) {
    let p = pool();
    let mut rng = ctx.rng.clone();
    let wide_randoms: Vec<i128> = (0..ctx.tier.of(20_000, 400_000)).map(|_| {
        let bits = 1 + rng.below(127);
        let mask = if bits >= 127 { i128::MAX } else { (1i128 << bits) - 1 };
        let x = rng.i128() & mask;
        if rng.chance(1, 2) { x } else { -x }
    }).collect();
    ctx.rng = rng;
    // 8/16-bit: every value, and every i128 within 300 of the limits
    let small = |min: i128, max: i128| -> Vec<i128> { ((min - 300)..=(max + 300)).collect() };
    int_extract!(ctx, i8, "i8", small(i8::MIN as i128, i8::MAX as i128), p.all);
    int_extract!(ctx, u8, "u8", small(u8::MIN as i128, u8::MAX as i128), p.all);
    int_extract!(ctx, i16, "i16", small(i16::MIN as i128, i16::MAX as i128), p.all);
    int_extract!(ctx, u16, "u16", small(u16::MIN as i128, u16::MAX as i128), p.all);
    macro_rules! wide {
        ($t:ty, $name:expr) => {{
            let mut ints = boundaries_i128(<$t>::MIN as i128, (<$t>::MAX as u128).min(i128::MAX as u128) as i128);
            ints.extend(crate::pools::ints());
            ints.extend(wide_randoms.iter().copied());
            int_extract!(ctx, $t, $name, ints, p.all);
        }};
    }
    wide!(i32, "i32");
    wide!(u32, "u32");
    wide!(i64, "i64");
    wide!(u64, "u64");
    wide!(u128, "u128");
    wide!(i128, "i128");
    // From<T> -> TryFrom<T> round trips over the whole range (8/16 bit) or boundaries + random
    int_roundtrip!(ctx, i8, "i8", i8::MIN..=i8::MAX);
    int_roundtrip!(ctx, u8, "u8", u8::MIN..=u8::MAX);
    int_roundtrip!(ctx, i16, "i16", i16::MIN..=i16::MAX);
    int_roundtrip!(ctx, u16, "u16", u16::MIN..=u16::MAX);
    int_roundtrip!(ctx, i32, "i32", wide_randoms.iter().map(|x| *x as i32).chain([i32::MIN, i32::MAX, 0, -1]));
    int_roundtrip!(ctx, u32, "u32", wide_randoms.iter().map(|x| *x as u32).chain([u32::MIN, u32::MAX]));
    int_roundtrip!(ctx, i64, "i64", wide_randoms.iter().map(|x| *x as i64).chain([i64::MIN, i64::MAX, 0, -1]));
    int_roundtrip!(ctx, u64, "u64", wide_randoms.iter().map(|x| *x as u64).chain([u64::MIN, u64::MAX]));
    int_roundtrip!(ctx, i128, "i128", wide_randoms.iter().copied().chain([i128::MIN, i128::MAX]));
    // usize has only the From direction
    for x in [0usize, 1, usize::MAX, usize::MAX - 1, 1 << 40] {
        if !ctx.mine() {
            continue;
        }
        ctx.count();
        ctx.hit("roundtrip:usize");
        if !matches!(Value::from(x), Value::Int(n) if n == x as i128) {
            bad(ctx, "usize", "into-value-altered-the-number", format!("{x}"), &Value::from(x));
        }
    }
    // scalars: every pool value as the source of every extraction
    scalar_extract::<String>(ctx, "String", &p.all, |v| if let Value::String(s) = v { Some(s.clone()) } else { None });
    scalar_extract::<bool>(ctx, "bool", &p.all, |v| if let Value::Bool(b) = v { Some(*b) } else { None });
    scalar_extract::<Decimal>(ctx, "Decimal", &p.all, |v| if let Value::Decimal(d) = v { Some(*d) } else { None });
    scalar_extract::<DateTime<Utc>>(ctx, "DateTime", &p.all, |v| if let Value::DateTime(d) = v { Some(*d) } else { None });
    scalar_extract::<TimeDelta>(ctx, "Duration", &p.all, |v| if let Value::Duration(d) = v { Some(*d) } else { None });
    // random (non-boundary) values of every kind: into a Value and back, and as the wrong kind for every other target
    {
        let mut rng = ctx.rng.clone();
        for _ in 0..3_000 {
            let t = crate::pools::TYPES[rng.below(9)];
            let v = crate::pools::random_value(&mut rng, t);
            ctx.count();
            ctx.hit("random-values");
            let ok = match &v {
                Value::String(s) => matches!(got(guard(|| String::try_from(Value::from(s.clone())))), Got::Ok(ref x) if x == s) && matches!(got(guard(|| i64::try_from(v.clone()))), Got::WrongType(ref o) if same(o, &v)),
                Value::Float(f) => matches!(got(guard(|| f64::try_from(Value::from(*f)))), Got::Ok(x) if x.to_bits() == f.to_bits()) && matches!(got(guard(|| String::try_from(v.clone()))), Got::WrongType(ref o) if same(o, &v)),
                Value::Decimal(d) => matches!(got(guard(|| Decimal::try_from(Value::from(*d)))), Got::Ok(x) if x == *d && x.scale() == d.scale()) && matches!(got(guard(|| bool::try_from(v.clone()))), Got::WrongType(ref o) if same(o, &v)),
                Value::DateTime(d) => matches!(got(guard(|| DateTime::<Utc>::try_from(Value::from(*d)))), Got::Ok(x) if x == *d) && matches!(got(guard(|| TimeDelta::try_from(v.clone()))), Got::WrongType(ref o) if same(o, &v)),
                Value::Duration(d) => matches!(got(guard(|| TimeDelta::try_from(Value::from(*d)))), Got::Ok(x) if x == *d) && matches!(got(guard(|| f64::try_from(v.clone()))), Got::WrongType(ref o) if same(o, &v)),
                Value::Int(n) => matches!(got(guard(|| i128::try_from(Value::from(*n)))), Got::Ok(x) if x == *n),
                Value::Bool(b) => matches!(got(guard(|| bool::try_from(Value::from(*b)))), Got::Ok(x) if x == *b),
                Value::Vec(xs) => {
                    // Vec<V> needs one element type: extraction as Vec<String> succeeds iff all are strings
                    let all_strings = xs.iter().all(|x| matches!(x, Value::String(_)));
                    match got(guard(|| Vec::<String>::try_from(v.clone()))) {
                        Got::Ok(ys) => all_strings && ys.len() == xs.len(),
                        Got::WrongType(o) => !all_strings && xs.iter().find(|x| !matches!(x, Value::String(_))).map(|x| same(x, &o)).unwrap_or(false),
                        _ => false,
                    }
                }
                Value::Map(m) => match got(guard(|| BTreeMap::<String, Value>::try_from(v.clone()))) {
                    Got::Ok(b) => b.len() == m.len() && b.iter().zip(m.iter()).all(|((k1, x), (k2, y))| k1 == k2 && same(x, y)),
                    _ => false,
                },
                Value::None => true,
            };
            if !ok {
                bad(ctx, "random-value", "roundtrip-or-wrong-kind", "a random value did not survive Value::from / try_from, or the wrong-kind error did not carry it".into(), &v);
            }
        }
        ctx.rng = rng;
    }
    // f64 separately: NaN != NaN under PartialEq
    for v in &p.all {
        if !ctx.mine() {
            continue;
        }
        ctx.count();
        let r = got(guard(|| f64::try_from(v.clone())));
        match (v, r) {
            (Value::Float(f), Got::Ok(x)) if x.to_bits() == f.to_bits() || (x.is_nan() && f.is_nan()) => ctx.hit("roundtrip:f64"),
            (Value::Float(_), other) => bad(ctx, "f64", "roundtrip", format!("{other:?}"), v),
            (_, Got::WrongType(o)) if same(&o, v) => ctx.hit("wrong-kind:f64"),
            (_, other) => bad(ctx, "f64", "wrong-kind-not-a-type-error-with-the-value", format!("{other:?}"), v),
        }
    }
    // From<&str>, From<String>, From<f32>, From<f64>, From<bool>, From<Decimal>, From<DateTime>, From<TimeDelta>
    if ctx.mine() {
        for s in crate::pools::strings() {
            ctx.count();
            ctx.hit("roundtrip:&str");
            if !matches!(Value::from(s.as_str()), Value::String(ref x) if *x == s) || !matches!(Value::from(s.clone()), Value::String(ref x) if *x == s) {
                bad(ctx, "&str", "roundtrip", s.clone(), &Value::None);
            }
        }
        for f in [0.1f32, -0.0, f32::MAX, f32::MIN_POSITIVE, 1e-45, 16777217.0, f32::INFINITY, 3.4028235e38] {
            ctx.count();
            ctx.hit("roundtrip:f32");
            match Value::from(f) {
                Value::Float(d) if d == f as f64 && (d as f32).to_bits() == f.to_bits() => {}
                other => bad(ctx, "f32", "into-value-altered-the-number", format!("{f} became {other:?}"), &other),
            }
        }
        for f in crate::pools::floats() {
            ctx.count();
            if !matches!(Value::from(f), Value::Float(d) if d.to_bits() == f.to_bits()) {
                bad(ctx, "f64", "into-value-altered-the-number", format!("{f}"), &Value::None);
            }
        }
        for d in crate::pools::decimals() {
            ctx.count();
            if !matches!(Value::from(d), Value::Decimal(x) if x == d && x.scale() == d.scale()) {
                bad(ctx, "Decimal", "roundtrip", format!("{d}"), &Value::None);
            }
        }
        for d in crate::pools::datetimes() {
            ctx.count();
            if !matches!(Value::from(d), Value::DateTime(x) if x == d) {
                bad(ctx, "DateTime", "roundtrip", format!("{d}"), &Value::None);
            }
        }
        for d in crate::pools::durations() {
            ctx.count();
            if !matches!(Value::from(d), Value::Duration(x) if x == d) {
                bad(ctx, "Duration", "roundtrip", format!("{d}"), &Value::None);
            }
        }
    }
    collections(ctx);
}

fn finish(m: &Merged, _tier: Tier) -> Finish {
    let mut f = Finish {
        rule: "every From / TryFrom implementation between Value and Rust types is driven: integers i8..i128 / u8..u128 extracted from Value::Int(n) for every n within 300 of the type's limits (8/16-bit: the whole range), pool boundaries and random i128; round trips From<T> -> TryFrom<T>; every pool value (247, all variants) as the source of every extraction (wrong kind must be UnexpectedValueType carrying that very value); Vec / HashMap / BTreeMap of length 0..6 with one non-convertible element (wrong kind, out of range, None, negative) at each position. Non-trivial: every narrowing and scalar extraction; distinct by (target type, source value)".into(),
        exhaustive: true,
        exhaustive_part: "i8/u8/i16/u16 over their whole range and 300 beyond each limit; collections for every (length, bad position, bad kind)".into(),
        ..Default::default()
    };
    for t in ["i8", "u8", "i16", "u16", "i32", "u32", "i64", "u64", "u128"] {
        f.floors.push(floor(format!("{t}: {} in-range / {} out-of-range extractions", m.c(&format!("narrow-in-range:{t}")), m.c(&format!("narrow-out-of-range:{t}"))), m.c(&format!("narrow-in-range:{t}")) >= 200 && m.c(&format!("narrow-out-of-range:{t}")) >= 200));
    }
    f.floors.push(floor(format!("target types with wrong-kind extractions: {}", m.prefix_count("wrong-kind:")), m.prefix_count("wrong-kind:") >= 18));
    f.floors.push(floor(format!("target types with round trips: {}", m.prefix_count("roundtrip:")), m.prefix_count("roundtrip:") >= 20));
    f.floors.push(floor(format!("collections with a bad element: {}", m.c("collections:vec-with-bad-element") + m.c("collections:map-with-bad-element")), m.c("collections:vec-with-bad-element") >= 80));
    f.extras.insert("narrowing".into(), json!(m.prefix_map("narrow-")));
    f.extras.insert("wrong_kind".into(), json!(m.prefix_map("wrong-kind:")));
    f.extras.insert("roundtrip".into(), json!(m.prefix_map("roundtrip:")));
    f.extras.insert("collections".into(), json!(m.prefix_map("collections:")));
    f.assumptions = vec!["for maps the 'first failing element' is the first in key order (both map conversions iterate the source BTreeMap)".into()];
    f
}
