//! C09 — a ruleset yields one outcome per rule, in order, each carrying its rule and the result of
//! evaluating that rule's expression on its own; failing rules do not disturb the others;
//! evaluate(&T) == evaluate_value(&serialize(T)) and fails only when T cannot be serialized.

use crate::core::{floor, guard, Ctx, Finish, Merged, Property, Tier};
use crate::evalcommon::*;
use crate::exec::{block_on, CURRENT_EVAL};
use crate::instr::{make_fns, FaultPlan, FnDesc, Kind, Log, ModelHost};
use crate::refeval::{classify, cls, compare, Obs, RefEval};
use crate::rng::{fnv, Rng};
use reval::expr::{Expr, Index};
use reval::prelude::*;
use reval::value::ser::ValueSerializer;
use serde::Serialize;
use serde_json::json;
use std::collections::BTreeMap;
use std::sync::Arc;

pub const PROP: Property = Property { id: "C09", run, finish, shards: |_| 16, expect_s: |t| t.of(20, 200) };

fn descs() -> Vec<FnDesc> {
    vec![
        FnDesc { name: "c", cacheable: true, kind: Kind::Tag, suspend: 0 },
        FnDesc { name: "v", cacheable: false, kind: Kind::V, suspend: 0 },
        FnDesc { name: "e", cacheable: false, kind: Kind::E, suspend: 0 },
        FnDesc { name: "ec", cacheable: true, kind: Kind::E, suspend: 0 },
        FnDesc { name: "n", cacheable: true, kind: Kind::N, suspend: 0 },
        FnDesc { name: "er", cacheable: false, kind: Kind::ER, suspend: 0 },
        FnDesc { name: "eu", cacheable: false, kind: Kind::EU, suspend: 0 },
    ]
}

/// (label, expression, fails?)
fn templates() -> Vec<(&'static str, Expr, bool)> {
    let s = |x: &str| Expr::value(x.to_string());
    vec![
        ("ok-arith", Expr::add(Expr::value(1), Expr::value(2)), false),
        ("ok-none", Expr::none_value(), false),
        ("ok-literal-true", Expr::value(true), false),
        ("ok-literal-false", Expr::value(false), false),
        ("ok-literal-string", s("constant"), false),
        ("ok-literal-list", Expr::Vec(vec![]), false),
        ("ok-facts", Expr::some(Expr::reff("facts")), false),
        ("ok-symbol", Expr::symbol("sym"), false),
        ("ok-call-cacheable", Expr::func("c", Expr::value(1)), false),
        ("ok-call-noncacheable", Expr::func("v", Expr::value(2)), false),
        ("ok-call-twice", Expr::Vec(vec![Expr::func("c", Expr::value(1)), Expr::func("c", Expr::value(1)), Expr::func("v", Expr::value(1))]), false),
        ("ok-constant-condition-input-branch", Expr::iif(Expr::eq(Expr::symbol("sym"), Expr::symbol("sym")), Expr::some(Expr::reff("facts")), Expr::value(0)), false),
        ("ok-literal-condition-input-branch", Expr::iif(Expr::value(false), Expr::value(1), Expr::Vec(vec![Expr::reff("facts"), Expr::value(2)])), false),
        ("ok-lazy-skips-error", Expr::or(Expr::value(true), Expr::func("e", Expr::value(9))), false),
        ("fail-type", Expr::add(Expr::value(1), s("x")), true),
        ("fail-div-zero", Expr::div(Expr::value(1), Expr::value(0)), true),
        ("fail-cast", Expr::int(s("x")), true),
        ("fail-out-of-bounds", Expr::week(Expr::value(99_999_999_999_999i64)), true),
        ("fail-overflow", Expr::add(Expr::value(i128::MAX), Expr::value(1)), true),
        ("fail-unknown-symbol", Expr::symbol("nosuch"), true),
        ("fail-unknown-function", Expr::func("nosuch", Expr::value(1)), true),
        ("fail-user-function", Expr::func("e", Expr::value(1)), true),
        ("fail-user-function-cacheable", Expr::func("ec", Expr::value(1)), true),
        ("fail-user-function-with-reval-error", Expr::func("er", Expr::value(1)), true),
        ("fail-user-function-with-inner-user-function-error", Expr::func("eu", Expr::value(1)), true),
        ("fail-after-call", Expr::add(Expr::func("c", Expr::value(1)), Expr::value(1)), true),
    ]
}

/// templates whose outcome depends on the input shape
fn input_templates() -> Vec<(&'static str, Expr)> {
    vec![
        ("ref-a", Expr::reff("a")),
        ("ref-missing", Expr::reff("missing")),
        ("ref-a-field", Expr::index(Expr::reff("a"), Index::from("x"))),
        ("facts-index", Expr::index(Expr::reff("facts"), Index::from(0usize))),
        ("call-with-input", Expr::func("c", Expr::reff("facts"))),
    ]
}

#[derive(Serialize, Clone)]
struct Inner {
    x: u8,
    tags: Vec<String>,
}

#[derive(Serialize, Clone)]
struct Facts {
    a: Inner,
    b: i64,
    opt: Option<u32>,
    unit: (),
}

#[derive(Serialize, Clone)]
enum Shape {
    Unit,
    New(i32),
    Tuple(i8, String),
    Struct { a: bool },
}

struct FailSer;
impl Serialize for FailSer {
    fn serialize<S: serde::Serializer>(&self, _s: S) -> Result<S::Ok, S::Error> {
        Err(serde::ser::Error::custom("this value refuses to be serialized"))
    }
}

#[derive(Serialize)]
struct HoldsFail {
    a: i32,
    inner: FailSer,
}

struct Built {
    ruleset: RuleSet,
    rules: Vec<Rule>,
    exprs: Vec<(String, Expr)>,
    log: Arc<Log>,
    symbols: BTreeMap<String, Value>,
}

fn build(rules: &[(String, Expr)], plan: &Arc<FaultPlan>) -> Built {
    let log = Arc::new(Log::default());
    let mut b = ruleset();
    let mut kept = vec![];
    for (i, (name, e)) in rules.iter().enumerate() {
        let mut meta = BTreeMap::new();
        meta.insert("position".to_string(), Value::Int(i as i128));
        // metadata a ruleset might be tempted to interpret: it must stay inert (order, skipping and pairing do not depend on it)
        match i % 7 {
            1 => {
                meta.insert("priority".to_string(), Value::Int(1000 - i as i128));
                meta.insert("order".to_string(), Value::Int(-(i as i128)));
            }
            2 => {
                meta.insert("disabled".to_string(), Value::Bool(true));
                meta.insert("enabled".to_string(), Value::Bool(false));
            }
            3 => {
                meta.insert("skip".to_string(), Value::Bool(true));
                meta.insert("name".to_string(), Value::String("another name".into()));
                meta.insert("description".to_string(), Value::Int(5));
            }
            4 => {
                meta.insert("cacheable".to_string(), Value::Bool(false));
                meta.insert("constant".to_string(), Value::Bool(true));
            }
            _ => {}
        }
        let r = Rule::new(name.clone(), meta, e.clone());
        kept.push(r.clone());
    }
    // three ways of adding the same rules in the same order: one by one, all in one batch, a batch after the first rule
    match rules.len() % 3 {
        0 => {
            for r in kept.iter().cloned() {
                b = b.with_rule(r).expect("unique names");
            }
        }
        1 => b = b.with_rules(kept.clone()).expect("unique names"),
        _ => {
            b = b.with_rule(kept[0].clone()).expect("unique names");
            b = b.with_rules(kept[1..].to_vec()).expect("unique names");
        }
    }
    for f in make_fns(&descs(), &log, plan) {
        b = b.with_function(f).expect("valid names");
    }
    let mut symbols = BTreeMap::new();
    symbols.insert("sym".to_string(), Value::String("symbol value".into()));
    b = b.with_symbol("sym", Value::String("symbol value".into()));
    Built { ruleset: b.build(), rules: kept, exprs: rules.to_vec(), log, symbols }
}

fn eval_value(b: &Built, facts: &Value) -> Result<Vec<(Rule, Obs)>, String> {
    b.log.take();
    CURRENT_EVAL.with(|c| c.set(1));
    match guard(|| block_on(b.ruleset.evaluate_value(facts))) {
        Ok(Ok(outs)) => Ok(outs.into_iter().map(|o| (o.rule.clone(), match o.value { Ok(v) => Obs::Val(v), Err(e) => classify(&e) })).collect()),
        Ok(Err(e)) => Err(format!("evaluate_value failed as a whole: {e}")),
        Err(p) => Err(format!("panic: {p}")),
    }
}

fn judge_ruleset(ctx: &mut Ctx, rules: &[(String, Expr)], labels: &[&str], facts: &Value, plan: FaultPlan, family: &str) {
    let plan = Arc::new(plan);
    let b = build(rules, &plan);
    ctx.begin(|| format!("{family}\t{labels:?} on {facts:?}"));
    ctx.count();
    ctx.hit(&format!("family:{family}"));
    ctx.hit(&format!("rules:{}", rules.len()));
    ctx.nontrivial(fnv(format!("{labels:?}|{facts:?}|{:?}", plan.faults).as_bytes()));
    let outs = match eval_value(&b, facts) {
        Ok(o) => o,
        Err(m) => {
            ctx.violation("C09 whole-evaluation-failed", m, json!({"rules": labels, "input": clip(format!("{facts:?}"), 300)}));
            return;
        }
    };
    let case = |extra: serde_json::Value| json!({"rules": labels, "input": clip(format!("{facts:?}"), 300), "faults": format!("{:?}", plan.faults), "detail": extra});
    if outs.len() != rules.len() {
        ctx.violation("C09 outcome-count", format!("{} outcomes for {} rules", outs.len(), rules.len()), case(json!(null)));
        return;
    }
    // model: one evaluation, cache shared across rules, rules in order
    let d = descs();
    let mut host = ModelHost::new(&d, &b.symbols, &plan);
    let mut failing = 0;
    for (i, ((rule, obs), added)) in outs.iter().zip(b.rules.iter()).enumerate() {
        if rule != added {
            let class = if b.rules.iter().any(|r| r == rule) { "outcome-paired-with-another-rule" } else { "outcome-rule-altered" };
            ctx.violation(format!("C09 {class}"), format!("outcome #{i} carries rule {:?}, expected {:?}", rule.name(), added.name()), case(json!(null)));
            return;
        }
        let (exp, wide) = {
            let mut r = RefEval::new(facts, &mut host);
            let x = r.eval(&b.exprs[i].1);
            (x, r.wide_hit)
        };
        if exp.is_err() {
            failing += 1;
        }
        if wide {
            continue;
        }
        if let Some(mis) = compare(&exp, obs) {
            let before_failed = outs[..i].iter().any(|(_, o)| !matches!(o, Obs::Val(_)));
            ctx.violation(
                format!("C09 outcome-{mis} rule-template={}{}", labels[i], if before_failed { " (after a failing rule)" } else { "" }),
                format!("outcome #{i} differs from evaluating the rule on its own in this ruleset"),
                case(json!({"position": i, "observed": show_obs(obs), "expected": show_exp(&exp)})),
            );
            return;
        }
    }
    ctx.hit(&format!("failing-rules:{}", failing.min(6)));
    // the same ruleset, evaluated again on ANOTHER input: nothing of the first input may show
    {
        let other = match facts {
            Value::Map(m) if !m.is_empty() => {
                let mut m2 = m.clone();
                m2.insert("a".to_string(), Value::Int(424_242));
                m2.insert("b".to_string(), Value::None);
                Value::Map(m2)
            }
            _ => Value::Map([("a".to_string(), Value::String("second input".into()))].into_iter().collect()),
        };
        ctx.count();
        match eval_value(&b, &other) {
            Ok(outs2) => {
                let mut host2 = ModelHost::new(&d, &b.symbols, &plan);
                for (i, (_, obs)) in outs2.iter().enumerate() {
                    let (exp, wide) = {
                        let mut r = RefEval::new(&other, &mut host2);
                        let x = r.eval(&b.exprs[i].1);
                        (x, r.wide_hit)
                    };
                    if wide {
                        continue;
                    }
                    if let Some(mis) = compare(&exp, obs) {
                        ctx.violation(format!("C09 second-input-outcome-{mis} rule-template={}", labels[i]), "the same ruleset evaluated on a second, different input does not give that input's own outcomes".to_string(), case(json!({"position": i, "second_input": format!("{other:?}"), "observed": show_obs(obs), "expected": show_exp(&exp)})));
                        return;
                    }
                }
                ctx.hit("second-input-checks");
            }
            Err(m) => {
                ctx.violation("C09 whole-evaluation-failed", m, case(json!("second input")));
                return;
            }
        }
    }
    // differential isolation: the singleton ruleset holding only rule i gives the same outcome
    // (only meaningful when functions are deterministic, i.e. no positional fault plan)
    if plan.faults.is_empty() {
        for (i, (name, e)) in rules.iter().enumerate() {
            let single = build(&[(name.clone(), e.clone())], &plan);
            ctx.count();
            match eval_value(&single, facts) {
                Ok(s) if s.len() == 1 => {
                    // the instrumented functions number their failures per evaluation ("boom e #1");
                    // that counter is the harness's, so it is not part of the comparison
                    let strip = |o: &Obs| {
                        let s = show_obs(o);
                        match s.find(" #") {
                            Some(p) if s.contains("boom ") => s[..p].to_string(),
                            _ => s,
                        }
                    };
                    let same = match (&s[0].1, &outs[i].1) {
                        (Obs::Val(a), Obs::Val(b)) => crate::refeval::same(a, b),
                        (a, b) => strip(a) == strip(b),
                    };
                    ctx.hit("isolation-checks");
                    if !same {
                        ctx.violation(format!("C09 not-isolated rule-template={}", labels[i]), "a rule's outcome inside the ruleset differs from the singleton ruleset".to_string(), case(json!({"position": i, "in_ruleset": show_obs(&outs[i].1), "alone": show_obs(&s[0].1)})));
                        return;
                    }
                }
                other => {
                    ctx.violation("C09 singleton-evaluation-failed", format!("{:?}", other.map(|v| v.len())), case(json!(null)));
                    return;
                }
            }
        }
    }
    ctx.sample(family, || json!({"rules": labels, "input": clip(format!("{facts:?}"), 120), "outcomes": outs.iter().map(|(r, o)| format!("{} -> {}", r.name(), show_obs(o))).collect::<Vec<_>>()}));
}

fn inputs() -> Vec<Value> {
    let mut m = BTreeMap::new();
    let mut inner = BTreeMap::new();
    inner.insert("x".to_string(), Value::Int(7));
    m.insert("a".to_string(), Value::Map(inner));
    m.insert("b".to_string(), Value::String("bee".into()));
    vec![Value::Map(m), Value::Map(BTreeMap::new()), Value::Int(5), Value::None, Value::Vec(vec![Value::Int(1), Value::None]), Value::String("text".into())]
}

/// evaluate(&T) against evaluate_value(&serialize(T))
fn serializable_inputs(ctx: &mut Ctx, rng: &mut Rng) {
    let tpl = templates();
    let itpl = input_templates();
    let mut rules: Vec<(String, Expr)> = vec![];
    let mut labels = vec![];
    for k in 0..(2 + rng.below(5)) {
        if rng.chance(1, 2) {
            let (l, e, _) = &tpl[rng.below(tpl.len())];
            rules.push((format!("r{k}"), e.clone()));
            labels.push(*l);
        } else {
            let (l, e) = &itpl[rng.below(itpl.len())];
            rules.push((format!("r{k}"), e.clone()));
            labels.push(*l);
        }
    }
    let plan = Arc::new(FaultPlan::default());
    let b = build(&rules, &plan);
    fn one<T: Serialize>(ctx: &mut Ctx, b: &Built, t: &T, label: &str, labels: &[&str]) {
        ctx.begin(|| format!("evaluate-serializable\t{label}"));
        ctx.count();
        ctx.hit(&format!("serializable:{label}"));
        ctx.nontrivial(fnv(format!("{label}|{labels:?}").as_bytes()));
        let ser = guard(|| t.serialize(ValueSerializer));
        b.log.take();
        let direct = guard(|| block_on(b.ruleset.evaluate(t)).map(|outs| outs.into_iter().map(|o| (o.rule.name().to_string(), match o.value { Ok(v) => Obs::Val(v), Err(e) => classify(&e) })).collect::<Vec<_>>()));
        let case = json!({"input": label, "rules": labels});
        match (ser, direct) {
            (Err(p), _) | (_, Err(p)) => ctx.violation(format!("C09 evaluate-panicked input={label}"), p, case),
            (Ok(Err(_)), Ok(Err(e))) => {
                ctx.hit("serializable:whole-call-failed-because-input-unserializable");
                if !matches!(classify(&e), Obs::Err { cls: c, .. } if c == cls::SER || c == cls::NUMERIC_OVERFLOW) {
                    ctx.hit("serializable:failure-has-other-error-class");
                }
            }
            (Ok(Err(e)), Ok(Ok(_))) => ctx.violation(format!("C09 evaluate-succeeded-on-unserializable input={label}"), format!("serialization fails ({e}) but evaluate returned outcomes"), case),
            (Ok(Ok(_)), Ok(Err(e))) => ctx.violation(format!("C09 evaluate-failed-on-serializable input={label}"), format!("the call as a whole failed: {e}"), case),
            (Ok(Ok(v)), Ok(Ok(direct))) => match eval_value(b, &v) {
                Ok(via) => {
                    let a: Vec<String> = direct.iter().map(|(n, o)| format!("{n}={}", show_obs(o))).collect();
                    let bb: Vec<String> = via.iter().map(|(r, o)| format!("{}={}", r.name(), show_obs(o))).collect();
                    if a != bb {
                        ctx.violation(format!("C09 evaluate-differs-from-evaluate_value input={label}"), "passing a serializable input and passing its serialized value give different outcomes".to_string(), json!({"input": label, "direct": a, "via_value": bb}));
                    } else {
                        ctx.sample("evaluate-serializable", || json!({"input": label, "outcomes": a}));
                    }
                }
                Err(m) => ctx.violation("C09 whole-evaluation-failed", m, case),
            },
        }
    }
    let facts = Facts { a: Inner { x: 7, tags: vec!["t".into()] }, b: -3, opt: None, unit: () };
    one(ctx, &b, &facts, "struct", &labels);
    one(ctx, &b, &Some(facts.clone()), "option-some-struct", &labels);
    one(ctx, &b, &(1u8, "two", 3.0f32), "tuple", &labels);
    one(ctx, &b, &vec![Shape::Unit, Shape::New(1), Shape::Tuple(2, "x".into()), Shape::Struct { a: true }], "vec-of-enums", &labels);
    one(ctx, &b, &std::collections::HashMap::from([("a", 1u64), ("b", u64::MAX)]), "hashmap", &labels);
    one(ctx, &b, &(), "unit", &labels);
    one(ctx, &b, &5i128, "i128", &labels);
    one(ctx, &b, &Value::Int(1).to_string(), "string", &labels);
    // references and wrappers of serializable inputs, maps with a key called facts / digit keys (reval::Value itself is not Serialize)
    one(ctx, &b, &&&facts, "reference-to-reference", &labels);
    one(ctx, &b, &Box::new(facts.clone()), "boxed-struct", &labels);
    one(ctx, &b, &std::borrow::Cow::Borrowed("text"), "cow-str", &labels);
    {
        let mut fm: BTreeMap<String, BTreeMap<String, i32>> = BTreeMap::new();
        fm.insert("facts".to_string(), [("x".to_string(), 1)].into_iter().collect());
        fm.insert("a".to_string(), [("x".to_string(), 9)].into_iter().collect());
        one(ctx, &b, &fm, "map-with-a-key-called-facts", &labels);
        let digits: BTreeMap<String, i32> = [("0".to_string(), 1), ("1".to_string(), 2), ("10".to_string(), 3), ("a".to_string(), 4)].into_iter().collect();
        one(ctx, &b, &digits, "map-with-integer-like-keys", &labels);
    }
    one(ctx, &b, &FailSer, "failing-serialize", &labels);
    one(ctx, &b, &HoldsFail { a: 1, inner: FailSer }, "struct-holding-failing-serialize", &labels);
    one(ctx, &b, &vec![Some(FailSer)], "vec-holding-failing-serialize", &labels);
    one(ctx, &b, &std::collections::BTreeMap::from([(1u8, "non-string key")]), "map-with-integer-key", &labels);
    one(ctx, &b, &u128::MAX, "u128-max", &labels);
}

fn run(ctx: &mut Ctx) {
    let mut rng = ctx.rng.clone();
    let tpl = templates();
    let itpl = input_templates();
    let ok: Vec<usize> = (0..tpl.len()).filter(|i| !tpl[*i].2).collect();
    let bad: Vec<usize> = (0..tpl.len()).filter(|i| tpl[*i].2).collect();
    let ins = inputs();
    let draws = ctx.tier.of(40, 400);
    // every subset and position of failing rules for n <= 6
    for n in 0..=6usize {
        for mask in 0..(1u32 << n) {
            for _ in 0..draws {
                if !ctx.mine() {
                    continue;
                }
                let mut rules = vec![];
                let mut labels = vec![];
                for i in 0..n {
                    let t = if mask & (1 << i) != 0 { &tpl[bad[rng.below(bad.len())]] } else { &tpl[ok[rng.below(ok.len())]] };
                    rules.push((format!("rule {i}"), t.1.clone()));
                    labels.push(t.0);
                }
                let facts = &ins[rng.below(ins.len())];
                judge_ruleset(ctx, &rules, &labels, facts, FaultPlan::default(), "failing-subsets");
                ctx.hit(&format!("subset:n{n}-mask{mask}"));
            }
        }
    }
    // input-dependent rules x every input shape
    for facts in &ins {
        for _ in 0..ctx.tier.of(300, 3_000) {
            let n = 1 + rng.below(8);
            let mut rules = vec![];
            let mut labels = vec![];
            for i in 0..n {
                if rng.chance(1, 2) {
                    let t = &itpl[rng.below(itpl.len())];
                    rules.push((format!("r{i}"), t.1.clone()));
                    labels.push(t.0);
                } else {
                    let t = &tpl[rng.below(tpl.len())];
                    rules.push((format!("r{i}"), t.1.clone()));
                    labels.push(t.0);
                }
            }
            judge_ruleset(ctx, &rules, &labels, facts, FaultPlan::default(), "input-shapes");
        }
    }
    // big rulesets (9..80 rules) with unusual rule names
    let odd_names = ["", " ", "rule", "Rule", "rule ", " rule", "RULE", "r\n2", "名前", "0", "facts", "name", "description", "a-b", "__probe", "r\u{e9}", "re\u{301}", "ﬁ", "fi", "ß", "ss", "SS", "ǆ", "ǅ", "ı", "i", "İ", "I", "\u{212a}", "k", "K", "rule\u{a0}", "rule\t", "\u{feff}rule", "ｒｕｌｅ"];
    for _ in 0..ctx.tier.of(40, 400) {
        let n = if rng.chance(1, 40) { 1_000 + rng.below(3_000) } else if rng.chance(1, 8) { 81 + rng.below(440) } else { 9 + rng.below(72) };
        let mut rules = vec![];
        let mut labels = vec![];
        for i in 0..n {
            let t = if rng.chance(1, 4) { &tpl[bad[rng.below(bad.len())]] } else { &tpl[ok[rng.below(ok.len())]] };
            let name = if i < odd_names.len() { odd_names[i].to_string() } else { format!("rule {i}") };
            rules.push((name, t.1.clone()));
            labels.push(t.0);
        }
        judge_ruleset(ctx, &rules, &labels, &ins[rng.below(ins.len())], FaultPlan::default(), "big-rulesets");
    }
    // injected user-function failures at each invocation index
    for _ in 0..ctx.tier.of(5_000, 50_000) {
        let n = 2 + rng.below(6);
        let mut rules = vec![];
        let mut labels = vec![];
        for i in 0..n {
            let t = &tpl[rng.below(tpl.len())];
            rules.push((format!("r{i}"), t.1.clone()));
            labels.push(t.0);
        }
        let mut plan = FaultPlan::default();
        for _ in 0..(1 + rng.below(2)) {
            let f = *rng.pick(&["c", "v", "n"]);
            plan.faults.push((f.to_string(), Value::Int(1 + rng.below(2) as i128), rng.below(3)));
        }
        judge_ruleset(ctx, &rules, &labels, &ins[0], plan, "injected-function-failures");
    }
    for _ in 0..ctx.tier.of(300, 3_000) {
        serializable_inputs(ctx, &mut rng);
    }
    ctx.rng = rng;
}

fn finish(m: &Merged, tier: Tier) -> Finish {
    let subsets = m.prefix_count("subset:");
    let mut f = Finish {
        rule: "rulesets built in three ways (with_rule one by one, one with_rules batch, a batch after the first rule) of 0..8 rules (and big ones of 9..4000 rules with odd names) drawn from 18 templates (succeeding, failing with each error class, calling cacheable / non-cacheable / failing user functions) plus input-dependent rules; every subset and position of failing rules for n <= 6; six input shapes; positional fault plans for user functions; 13 serde inputs for evaluate(&T) including values whose Serialize fails. Oracles: outcome count and order; outcome.rule == the rule that was added; outcome == reference evaluation of that rule inside this ruleset (shared cache model); == outcome of the singleton ruleset; evaluate(&T) == evaluate_value(&serialize(T)), Err iff serialization is. Every case is non-trivial; distinct by (templates, input, fault plan)".into(),
        exhaustive: false,
        exhaustive_part: "all 127 (n, failing-subset) patterns for n <= 6, each with several template draws".into(),
        ..Default::default()
    };
    f.floors.push(floor(format!("(n, failing subset) patterns covered: {subsets}/127"), subsets == 127));
    f.floors.push(floor(format!("singleton isolation checks: {}", m.c("isolation-checks")), m.c("isolation-checks") >= tier.of(50_000, 500_000)));
    f.floors.push(floor(format!("serializable input kinds: {}", m.prefix_count("serializable:")), m.prefix_count("serializable:") >= 13));
    f.floors.push(floor(format!("whole-call failures on unserializable input: {}", m.c("serializable:whole-call-failed-because-input-unserializable")), m.c("serializable:whole-call-failed-because-input-unserializable") >= 20));
    f.extras.insert("families".into(), json!(m.prefix_map("family:")));
    f.extras.insert("rules_per_ruleset".into(), json!(m.prefix_map("rules:")));
    f.extras.insert("failing_rules_per_ruleset".into(), json!(m.prefix_map("failing-rules:")));
    f.extras.insert("serializable".into(), json!(m.prefix_map("serializable:")));
    f.assumptions = vec!["user functions are deterministic given (function, argument, invocation index); the singleton comparison is skipped under positional fault plans, where a rule's result legitimately depends on earlier invocations".into()];
    f
}
