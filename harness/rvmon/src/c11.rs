//! C11 — user-function caching is transparent, per evaluation and per (function, argument);
//! failures are not remembered; non-cacheable functions are always invoked; nothing survives an
//! evaluation; a failure surfaces as an error naming the function and carrying the original error.

use crate::core::{floor, Ctx, Finish, Merged, Property, Tier};
use crate::evalcommon::*;
use crate::fixture::{build, diff_class, diff_log, show_log, show_want, Fixture};
use crate::instr::{FaultPlan, FnDesc, Kind};
use crate::refeval::{compare, same};
use crate::rng::{fnv, Rng};
use reval::expr::Expr;
use reval::value::Value;
use rust_decimal::Decimal;
use serde_json::json;
use std::collections::BTreeMap;

pub const PROP: Property = Property { id: "C11", run, finish, shards: |_| 16, expect_s: |t| t.of(25, 300) };

fn descs() -> Vec<FnDesc> {
    vec![
        FnDesc { name: "ca", cacheable: true, kind: Kind::Tag, suspend: 0 },
        FnDesc { name: "cb", cacheable: true, kind: Kind::Tag, suspend: 0 },
        FnDesc { name: "na", cacheable: false, kind: Kind::Tag, suspend: 0 },
        FnDesc { name: "cn", cacheable: true, kind: Kind::N, suspend: 0 },
        FnDesc { name: "ce", cacheable: true, kind: Kind::E, suspend: 0 },
        FnDesc { name: "nb", cacheable: false, kind: Kind::V, suspend: 0 },
        FnDesc { name: "cr", cacheable: true, kind: Kind::ER, suspend: 0 },
        FnDesc { name: "nr", cacheable: false, kind: Kind::ER, suspend: 0 },
        // does not override cacheable(): the default must mean "cacheable"
        FnDesc { name: "dcx", cacheable: true, kind: Kind::Tag, suspend: 0 },
        // long names of equal length, and one that is a prefix of the others
        FnDesc { name: "a_rather_long_function_name_for_a_cacheable_lookup_a", cacheable: true, kind: Kind::Tag, suspend: 0 },
        FnDesc { name: "a_rather_long_function_name_for_a_cacheable_lookup_b", cacheable: true, kind: Kind::E, suspend: 0 },
        FnDesc { name: "a_rather_long_function_name_for_a_cacheable_lookup", cacheable: false, kind: Kind::V, suspend: 0 },
        // declares itself cacheable or not depending on a switch that the harness flips between evaluations
        FnDesc { name: "tg", cacheable: true, kind: Kind::Tag, suspend: 0 },
        // when invoked, turns the switch off for the rest of the evaluation (a function that was cacheable stops being so midway)
        FnDesc { name: "tgoff", cacheable: false, kind: Kind::Tag, suspend: 0 },
        // fail with an error that is itself a UserFunctionError naming another function
        FnDesc { name: "cu", cacheable: true, kind: Kind::EU, suspend: 0 },
        FnDesc { name: "nu", cacheable: false, kind: Kind::EU, suspend: 0 },
        // two functions whose types are zero-sized (plain unit structs, as in the crate's own documentation): nothing distinguishes
        // them but their names
        FnDesc { name: "zsta", cacheable: true, kind: Kind::Tag, suspend: 0 },
        FnDesc { name: "zstb", cacheable: true, kind: Kind::Tag, suspend: 0 },
    ]
}

fn descs_toggled(on: bool) -> Vec<FnDesc> {
    let mut d = descs();
    for f in d.iter_mut().filter(|f| f.name.starts_with("tg")) {
        f.cacheable = on;
    }
    d
}

/// look-alike arguments: equal, or distinct-but-similar
fn args() -> Vec<Value> {
    let mut m = BTreeMap::new();
    m.insert("a".to_string(), Value::Int(1));
    vec![
        Value::Int(1), Value::String("1".into()), Value::String("i1".into()), Value::Vec(vec![Value::Int(1)]), Value::Float(1.0), Value::Decimal(Decimal::new(1, 0)), Value::Map(m),
        Value::None, Value::Vec(vec![Value::Vec(vec![Value::Int(1)])]), Value::String("ca".into()), Value::Int(2), Value::Bool(true), Value::String("Int(1)".into()), Value::Vec(vec![]),
        Value::String("".into()), Value::Float(-0.0), Value::Float(0.0), Value::Int(-1), Value::String("ca-Int(1)".into()),
        Value::DateTime(chrono::DateTime::from_timestamp(1, 0).unwrap()), Value::DateTime(chrono::DateTime::from_timestamp(1, 1).unwrap()), Value::Duration(chrono::TimeDelta::seconds(1)),
        Value::Duration(chrono::TimeDelta::milliseconds(1000)), Value::Duration(chrono::TimeDelta::nanoseconds(1)), Value::Float(1e16), Value::Float(1e16 + 2.0), Value::String("1970-01-01T00:00:01Z".into()),
        Value::String("ca".into()), Value::String("-".into()), Value::String("a-Int(1)".into()), Value::Vec(vec![Value::String("1".into())]), Value::Vec(vec![Value::Int(1), Value::Int(1)]),
        Value::Map([("a".to_string(), Value::Int(1)), ("b".to_string(), Value::Int(2))].into_iter().collect()),
        Value::Map([("a: i1, b".to_string(), Value::Int(2))].into_iter().collect()),
        Value::Map([("a".to_string(), Value::String("1, b: 2".into()))].into_iter().collect()),
        Value::Vec(vec![Value::String("a, b".into())]), Value::Vec(vec![Value::String("a".into()), Value::String("b".into())]),
        Value::String("\"1\"".into()), Value::String("i1".into()), Value::Vec(vec![Value::String("i1".into())]),
        Value::Vec(vec![Value::Vec(vec![Value::Int(1)]), Value::Int(2)]), Value::Vec(vec![Value::Vec(vec![Value::Int(1), Value::Int(2)])]), Value::Vec(vec![Value::Int(1), Value::Vec(vec![Value::Int(2)])]),
        Value::Vec(vec![Value::Vec(vec![]), Value::Int(1)]), Value::Vec(vec![Value::Vec(vec![Value::Int(1)])]),
        Value::Map([("a".to_string(), Value::Map([("b".to_string(), Value::Int(1))].into_iter().collect())), ("c".to_string(), Value::Int(2))].into_iter().collect()),
        Value::Map([("a".to_string(), Value::Map([("b".to_string(), Value::Int(1)), ("c".to_string(), Value::Int(2))].into_iter().collect()))].into_iter().collect()),
        Value::Vec(vec![Value::String("ab".into())]), Value::Vec(vec![Value::String("a".into()), Value::String("b".into())]), Value::String("ab".into()),
        Value::String("x".repeat(10_000)), Value::String(format!("{}y", "x".repeat(9_999))), Value::Vec((0..1000).map(Value::Int).collect()), Value::Vec((0..1000).map(|i| Value::Int(if i == 999 { -1 } else { i })).collect()),
        Value::Map(BTreeMap::new()), Value::String("{}".into()), Value::String("[]".into()), Value::String("none".into()), Value::String("None".into()),
    ]
}

#[derive(Clone, Debug)]
struct Call {
    func: &'static str,
    arg: usize,
    /// wrap: the argument is itself the result of another call
    inner: Option<&'static str>,
}

fn arg_value(c: &Call, a: &[Value]) -> Value {
    // two arguments of more than a megabyte that differ in the last byte (only used by one dedicated history per shard)
    if c.arg == 999_990 {
        return Value::String("z".repeat(1_100_000));
    }
    if c.arg == 999_991 {
        return Value::String(format!("{}y", "z".repeat(1_099_999)));
    }
    // 6 MB and 40 MB (one dedicated history in two shards)
    if c.arg == 999_988 {
        return Value::String("w".repeat(6_000_000));
    }
    if c.arg == 999_989 {
        return Value::String("w".repeat(40_000_000));
    }
    // arguments whose rendering is longer than 64 KiB (picked by one random history in 250)
    match c.arg {
        999_992 => return Value::String("x".repeat(70_000)),
        999_993 => return Value::String(format!("{}y", "x".repeat(69_999))),
        999_994 => return Value::Vec((0..30_000).map(Value::Int).collect()),
        // the same length as 999_992, different in the middle / at the first byte / at one third
        999_995 => return Value::String(format!("{}M{}", "x".repeat(34_999), "x".repeat(35_000))),
        999_996 => return Value::String(format!("F{}", "x".repeat(69_999))),
        999_997 => return Value::String(format!("{}T{}", "x".repeat(23_333), "x".repeat(46_666))),
        _ => {}
    }
    // indices beyond the look-alike pool denote "the integer <index>" (used by the long histories)
    if c.arg >= 1_000_000 {
        // "random argument number n": a deterministic pseudo-random value of a pseudo-random type
        let mut r = Rng::new(c.arg as u64, "c11-arg", 0);
        let t = crate::pools::TYPES[r.below(9)];
        return crate::pools::random_value(&mut r, t);
    }
    a.get(c.arg).cloned().unwrap_or(Value::Int(c.arg as i128))
}

/// where a call site takes its argument from: a literal, an input field, a symbol, a field of `facts` — the same value is the same
/// argument wherever it comes from
fn call_expr(c: &Call, a: &[Value], source: usize) -> Expr {
    let arg = match source % 4 {
        1 => Expr::reff(format!("v{}", c.arg)),
        2 => Expr::symbol(format!("v{}", c.arg)),
        3 => Expr::index(Expr::reff("facts"), reval::expr::Index::from(format!("v{}", c.arg).as_str())),
        _ => Expr::value(arg_value(c, a)),
    };
    let call = match c.inner {
        Some(i) => Expr::func(c.func, Expr::func(i, arg)),
        None => Expr::func(c.func, arg),
    };
    // some call sites select a part of the result: the cache must still hold the whole result
    match c.arg % 5 {
        0 if c.arg < 1000 => Expr::index(call, reval::expr::Index::from(c.arg % 2)),
        _ => call,
    }
}

/// distribute a call sequence over rules: rule k is the list expression of its calls
fn to_rules(calls: &[Call], cuts: &[usize], a: &[Value]) -> Vec<(String, Expr)> {
    let mut rules = vec![];
    let mut start = 0;
    let mut bounds: Vec<usize> = cuts.to_vec();
    bounds.push(calls.len());
    for (k, end) in bounds.into_iter().enumerate() {
        // short histories draw their arguments from all four sources (by position); the long ones use literals
        let small = calls.len() <= 64;
        let items: Vec<Expr> = calls[start..end].iter().enumerate().map(|(i, c)| call_expr(c, a, if small && c.arg < 999_000 { start + i + calls.len() } else { 0 })).collect();
        rules.push((format!("rule{k}"), if items.len() == 1 { items.into_iter().next().unwrap() } else { Expr::Vec(items) }));
        start = end;
    }
    rules
}

fn judge(ctx: &mut Ctx, calls: &[Call], cuts: &[usize], plan: FaultPlan, family: &str) {
    let a = args();
    let rules = to_rules(calls, cuts, &a);
    // the switch of the "tg" function: one value while the ruleset is built and during evaluations 1 and 4, the other during 2, 3 and 5
    let toggles = calls.iter().any(|c| c.func.starts_with("tg") || c.inner.map(|i| i.starts_with("tg")).unwrap_or(false));
    // histories that switch cacheability off midway start every evaluation with the switch on, and nothing is flipped between evaluations
    let midway = calls.iter().any(|c| c.func.starts_with("tgoff") || c.inner.map(|i| i.starts_with("tgoff")).unwrap_or(false));
    let start = calls.len() % 2 == 0 || midway;
    let toggles = toggles && !midway;
    if midway {
        ctx.hit("histories-that-turn-cacheability-off-midway");
    }
    crate::instr::TOGGLE_CACHEABLE.store(start, std::sync::atomic::Ordering::SeqCst);
    // every argument of a short history is also available as an input field and as a symbol of the same name
    let mut table: BTreeMap<String, Value> = BTreeMap::new();
    if calls.len() <= 64 {
        for c in calls.iter().filter(|c| c.arg < 999_000) {
            table.entry(format!("v{}", c.arg)).or_insert_with(|| arg_value(c, &a));
        }
    }
    let fx: Fixture = build(&descs_toggled(start), &table, &rules, plan);
    let facts = if table.is_empty() { Value::None } else { Value::Map(table.clone()) };
    let pred_flipped = if toggles { Some(fx.predict_with(&descs_toggled(!start), &facts)) } else { None };
    ctx.begin(|| format!("{family}\t{calls:?} cuts {cuts:?} faults {:?}", fx.plan.faults));
    ctx.count();
    ctx.hit(&format!("family:{family}"));
    let pred = fx.predict(&facts);
    let hist: String = pred.invocations.iter().map(|(n, v, o)| format!("{n}({v:?})={};", o.is_ok())).collect();
    if pred.calls >= 2 {
        ctx.nontrivial(fnv(format!("{hist}|{}", pred.calls).as_bytes()));
    }
    ctx.add("cache-hits-predicted", pred.cache_hits);
    if pred.invocations.iter().any(|(_, _, o)| o.is_err()) {
        ctx.hit("histories-with-failures");
    }
    ctx.hit(&format!("calls:{}", pred.calls.min(12)));
    // three consecutive evaluations of the same ruleset: each must look like the first
    let pred_first = pred;
    // five consecutive evaluations; one history in 40 is evaluated 60 times (whatever counts evaluations or grows with them comes round)
    let rounds: u64 = if !toggles && fnv(hist.as_bytes()) % 40 == 0 && calls.len() < 200 { 60 } else { 5 };
    if rounds > 5 {
        ctx.hit("histories-evaluated-60-times");
    }
    for round in 1..=rounds {
        let flipped = toggles && [2, 3, 5].contains(&round);
        crate::instr::TOGGLE_CACHEABLE.store(start != flipped, std::sync::atomic::Ordering::SeqCst);
        let pred = if flipped { pred_flipped.as_ref().unwrap() } else { &pred_first };
        if flipped {
            ctx.hit("evaluations-after-the-declared-cacheability-changed");
        }
        let res = match fx.eval(&facts, round) {
            Ok(r) => r,
            Err(p) => {
                ctx.violation("C11 evaluation-failed", p, json!({"calls": format!("{calls:?}")}));
                return;
            }
        };
        let case = |extra: serde_json::Value| {
            let short = |v: Vec<String>| v.into_iter().take(80).map(|x| clip(x, 300)).collect::<Vec<_>>();
            json!({"calls": short(calls.iter().map(|c| format!("{}{}({:?})", c.func, c.inner.map(|i| format!("∘{i}")).unwrap_or_default(), arg_value(c, &a))).collect::<Vec<_>>()), "number_of_calls": calls.len(), "rule_boundaries": cuts.iter().take(20).collect::<Vec<_>>(),
                   "faults": clip(format!("{:?}", fx.plan.faults), 600), "evaluation": round, "observed_invocations": short(show_log(&res.log)), "expected_invocations": short(show_want(&pred.invocations)), "detail": extra})
        };
        if let Some(d) = diff_log(&res.log, &pred.invocations) {
            let class = diff_class(&res.log, &pred.invocations);
            // what kind of function is at the point of divergence, and is this a later evaluation?
            let i = res.log.iter().zip(pred.invocations.iter()).position(|(e, w)| e.func != w.0 || !same(&e.arg, &w.1)).unwrap_or(res.log.len().min(pred.invocations.len()));
            let fname = res.log.get(i).map(|e| e.func.to_string()).or_else(|| pred.invocations.get(i).map(|w| w.0.clone())).unwrap_or_default();
            let cacheable = descs_toggled(start != flipped).iter().find(|d| d.name == fname).map(|d| d.cacheable).unwrap_or(false);
            let why = if class == "missing-invocation" || class == "different-call" {
                // the model expected an invocation that did not happen: what made the implementation think it knew the answer?
                let w = pred.invocations.get(i);
                let earlier_same_fn_arg = w.map(|w| pred.invocations[..i].iter().any(|p| p.0 == w.0 && same(&p.1, &w.1))).unwrap_or(false);
                let earlier_failed = w.map(|w| pred.invocations[..i].iter().any(|p| p.0 == w.0 && same(&p.1, &w.1) && p.2.is_err())).unwrap_or(false);
                if round > 1 && res.log.len() < pred.invocations.len() && !earlier_same_fn_arg {
                    "result-remembered-from-an-earlier-evaluation"
                } else if earlier_failed {
                    "failed-call-was-remembered"
                } else if !cacheable {
                    "non-cacheable-function-served-from-cache"
                } else {
                    "result-reused-for-a-different-function-or-argument"
                }
            } else if class == "extra-invocation" {
                "cacheable-function-invoked-again-for-the-same-argument"
            } else {
                "invocation-order"
            };
            ctx.violation(format!("C11 {class} {why}"), format!("invocation history differs from the per-evaluation cache model: {d}"), case(json!(null)));
            return;
        }
        for ((_, exp), (name, obs)) in pred.outcomes.iter().zip(res.outcomes.iter()) {
            if let Some(mis) = compare(exp, obs) {
                let class = if mis.starts_with("wrong-error-payload") { "failure-does-not-carry-function-name-and-original-error" } else { "later-call-observed-a-different-result" };
                ctx.violation(format!("C11 {class} ({mis})"), format!("{name}: outcome differs from the cache model"), case(json!({"rule": name, "observed": show_obs(obs), "expected": show_exp(exp)})));
                return;
            }
        }
        ctx.hit(&format!("evaluation-round:{}", round.min(6)));
    }
    let pred = pred_first;
    // samples are kept small: at most 30 calls, every rendering clipped (arguments can have megabytes)
    ctx.sample(family, || json!({"calls": calls.iter().take(30).map(|c| clip(format!("{}({:?})", c.func, arg_value(c, &a)), 160)).collect::<Vec<_>>(), "number_of_calls": calls.len(),
        "invocations_expected": show_want(&pred.invocations).into_iter().take(30).map(|x| clip(x, 200)).collect::<Vec<_>>(), "cache_hits": pred.cache_hits}));
}

fn plans(options: &[(String, Value, usize)], max_faults: usize) -> Vec<FaultPlan> {
    let mut out = vec![FaultPlan::default()];
    if max_faults >= 1 {
        for a in options {
            out.push(FaultPlan { faults: vec![a.clone()] });
        }
    }
    if max_faults >= 2 {
        for i in 0..options.len() {
            for j in (i + 1)..options.len() {
                out.push(FaultPlan { faults: vec![options[i].clone(), options[j].clone()] });
            }
        }
    }
    out
}

fn exhaustive(ctx: &mut Ctx, max_len: usize) {
    let a = args();
    // small alphabet: 2 cacheable + 1 non-cacheable function x 3 look-alike arguments (i1, "1", [i1])
    let alphabet: Vec<Call> = ["ca", "cb", "na"].iter().flat_map(|f| [0usize, 1, 3].into_iter().map(move |arg| Call { func: f, arg, inner: None })).collect();
    let mut options = vec![];
    for f in ["ca", "na"] {
        for arg in [0usize, 1] {
            for j in 0..2 {
                options.push((f.to_string(), a[arg].clone(), j));
            }
        }
    }
    let all_plans = plans(&options, 2);
    let n = alphabet.len();
    for len in 1..=max_len {
        for code in 0..n.pow(len as u32) {
            let mut c = code;
            let calls: Vec<Call> = (0..len)
                .map(|_| {
                    let x = alphabet[c % n].clone();
                    c /= n;
                    x
                })
                .collect();
            for (pi, plan) in all_plans.iter().enumerate() {
                if !ctx.mine() {
                    continue;
                }
                // rule boundaries: rotate through all-in-one-rule / one-call-per-rule / split in the middle
                let cuts: Vec<usize> = match (code + pi) % 3 {
                    0 => vec![],
                    1 => (1..len).collect(),
                    _ => {
                        if len >= 2 {
                            vec![len / 2]
                        } else {
                            vec![]
                        }
                    }
                };
                judge(ctx, &calls, &cuts, plan.clone(), "exhaustive-short-sequences");
            }
        }
    }
}

fn random(ctx: &mut Ctx, n: usize) {
    let mut rng: Rng = ctx.rng.clone();
    let a = args();
    let fns = ["ca", "cb", "na", "cn", "ce", "nb", "cr", "nr", "dcx", "a_rather_long_function_name_for_a_cacheable_lookup_a", "a_rather_long_function_name_for_a_cacheable_lookup_b", "a_rather_long_function_name_for_a_cacheable_lookup", "tg", "tg", "tgoff", "cu", "nu", "zsta", "zstb", "zsta", "zstb"];
    for _ in 0..n {
        let len = if rng.chance(1, 10) { 13 + rng.below(48) } else { 1 + rng.below(12) };
        // few distinct arguments per history so that repeats are common
        let k = 1 + rng.below(4);
        let mut local: Vec<usize> = (0..k).map(|_| if rng.chance(1, 4) { 1_000_000 + rng.below(1_000_000) } else { rng.below(a.len()) }).collect();
        if rng.chance(1, 250) {
            local[0] = 999_992 + rng.below(6);
            if k > 1 {
                local[1] = 999_992 + rng.below(6);
            }
            if k > 2 {
                local[2] = 999_992;
            }
        }
        let calls: Vec<Call> = (0..len)
            .map(|_| Call { func: fns[rng.below(fns.len())], arg: local[rng.below(k)], inner: if rng.chance(1, 6) { Some(fns[rng.below(4)]) } else { None } })
            .collect();
        let nrules = 1 + rng.below(5.min(len));
        let mut cuts: Vec<usize> = (0..nrules - 1).map(|_| 1 + rng.below(len.max(2) - 1)).collect();
        cuts.sort();
        cuts.dedup();
        let mut plan = FaultPlan::default();
        for _ in 0..rng.below(3) {
            let c = &calls[rng.below(calls.len())];
            plan.faults.push((c.func.to_string(), arg_value(c, &a).clone(), rng.below(3)));
        }
        judge(ctx, &calls, &cuts, plan, "random-histories");
    }
    ctx.rng = rng;
}

/// long histories: many distinct arguments (a cache that evicts or mis-indexes beyond some size), repeated late
fn long_histories(ctx: &mut Ctx, n: usize, n_huge: usize) {
    let mut rng: Rng = ctx.rng.clone();
    for k in 0..n + n_huge {
        let huge = k < n_huge;
        let distinct = if huge { if k % 2 == 0 { 17_000 + rng.below(50_000) } else { 4_500 + rng.below(8_000) } } else if rng.chance(1, 5) { 300 + rng.below(1200) } else { 20 + rng.below(200) };
        let mut calls: Vec<Call> = vec![];
        // the argument table for this history: integers 1000.. are appended to the shared pool on the fly through `arg` indices
        // (indices beyond the pool are mapped to Int(index) in call_expr_long)
        for i in 0..distinct {
            calls.push(Call { func: if i % 7 == 3 { "cb" } else { "ca" }, arg: 1000 + i, inner: None });
        }
        // second pass in a different order: every one of these must be a cache hit
        let mut order: Vec<usize> = (0..distinct).collect();
        rng.shuffle(&mut order);
        for i in order.into_iter().take(if huge { 400 } else { 40 }) {
            calls.push(Call { func: if i % 7 == 3 { "cb" } else { "ca" }, arg: 1000 + i, inner: None });
        }
        let nrules = 1 + rng.below(4);
        let mut cuts: Vec<usize> = (0..nrules - 1).map(|_| 1 + rng.below(calls.len() - 1)).collect();
        cuts.sort();
        cuts.dedup();
        judge(ctx, &calls, &cuts, FaultPlan::default(), if huge { "histories-with-thousands-of-distinct-arguments" } else { "long-histories" });
    }
    ctx.rng = rng;
}

fn run(ctx: &mut Ctx) {
    {
        let calls: Vec<Call> = [("ca", 999_990), ("ca", 999_990), ("cb", 999_990), ("ca", 999_991), ("ca", 999_990), ("na", 999_991), ("ca", 999_991)].into_iter().map(|(f, arg)| Call { func: f, arg, inner: None }).collect();
        judge(ctx, &calls, &[3], FaultPlan::default(), "megabyte-arguments");
        if ctx.shard < 2 {
            let big = 999_988 + ctx.shard;
            let calls: Vec<Call> = [("ca", big), ("ca", big), ("cb", big), ("ca", 999_990), ("ca", big)].into_iter().map(|(f, arg)| Call { func: f, arg, inner: None }).collect();
            judge(ctx, &calls, &[2], FaultPlan::default(), "megabyte-arguments");
        }
    }
    long_histories(ctx, ctx.tier.of(30, 300), ctx.tier.of(2, 6));
    exhaustive(ctx, ctx.tier.of(3, 4));
    random(ctx, ctx.tier.of(60_000, 600_000));
}

fn finish(m: &Merged, tier: Tier) -> Finish {
    let mut f = Finish {
        rule: "a history is a sequence of user-function calls spread over 1-5 rules of one ruleset (8 instrumented functions: cacheable / non-cacheable, always-failing (with a plain error and with an error that is itself a reval::Error), None-returning; 19 look-alike arguments such as i1 / \"1\" / \"i1\" / [i1] / f1 / d1 / {a:i1} / none; nested calls; a function whose cacheable() answer is flipped between evaluations; histories of up to 12 500 distinct arguments) under a fault plan (fail the j-th invocation of (function, argument)). The invocation log of each of five consecutive evaluations must equal the log predicted by a sequential per-evaluation cache model, and every outcome the model's (including UserFunctionError{function, original text}). Non-trivial = histories with >= 2 calls; distinct by predicted invocation sequence".into(),
        exhaustive: false,
        exhaustive_part: format!("all call sequences of length <= {} over 3 functions x 3 arguments, each under every fault plan with <= 2 faults out of 8 (37 plans)", tier.of(3, 4)),
        ..Default::default()
    };
    f.floors.push(floor(format!("distinct histories: {}", m.distinct_nontrivial), m.distinct_nontrivial >= tier.of(5_000, 50_000)));
    f.floors.push(floor(format!("predicted cache hits: {}", m.c("cache-hits-predicted")), m.c("cache-hits-predicted") >= 10_000));
    f.floors.push(floor(format!("histories with failing invocations: {}", m.c("histories-with-failures")), m.c("histories-with-failures") >= 5_000));
    f.floors.push(floor(format!("fifth consecutive evaluations checked: {}", m.c("evaluation-round:5")), m.c("evaluation-round:5") >= tier.of(20_000, 200_000)));
    f.floors.push(floor(format!("evaluations after a function's declared cacheability changed: {}", m.c("evaluations-after-the-declared-cacheability-changed")), m.c("evaluations-after-the-declared-cacheability-changed") >= tier.of(20_000, 200_000)));
    f.floors.push(floor(format!("histories with more than 4500 distinct arguments: {}", m.c("family:histories-with-thousands-of-distinct-arguments")), m.c("family:histories-with-thousands-of-distinct-arguments") >= 32));
    f.floors.push(floor(format!("histories evaluated 60 times in a row: {}", m.c("histories-evaluated-60-times")), m.c("histories-evaluated-60-times") >= 100));
    f.floors.push(floor(format!("histories in which a function stops being cacheable midway: {}", m.c("histories-that-turn-cacheability-off-midway")), m.c("histories-that-turn-cacheability-off-midway") >= tier.of(5_000, 50_000)));
    f.extras.insert("histories_distinct".into(), json!(m.distinct_nontrivial));
    f.extras.insert("calls_per_history".into(), json!(m.prefix_map("calls:")));
    f.extras.insert("families".into(), json!(m.prefix_map("family:")));
    f.assumptions = vec!["'distinct argument' is structural identity (Float by bit pattern, Decimal by value and scale); arguments that are equal but differently rendered (d1.0 / d1.00) and NaN payloads are not generated, the statement does not fix them".into(),
        "'declares itself non-cacheable' is read in the present tense: what cacheable() answers during the evaluation in which the call is made. The switch of the toggling function is flipped only between evaluations (never while one is running), so the answer is the same from before the evaluation starts until after it ends. One more case is generated: a function that is cacheable at the start of an evaluation and declares itself non-cacheable from some call on (never the other way round within an evaluation): from that call on it must be invoked every time".into()];
    f
}
