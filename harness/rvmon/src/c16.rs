//! C16 — printing a parsed expression gives text that parses back to the same expression (and
//! therefore evaluates identically).

use crate::core::{floor, guard, Ctx, Finish, Merged, Property, Tier};
use crate::evalcommon::*;
use crate::gen::{children, kind, std_facts, Gen, GenCfg, ALL_KINDS, BINARY, UNARY};
use crate::pools::pool;
use crate::print::{to_text, to_text_random, Parens};
use crate::rng::{fnv, Rng};
use reval::expr::{Expr, Index};
use reval::value::Value;
use rust_decimal::Decimal;
use serde_json::json;
use std::collections::BTreeMap;
use std::str::FromStr;

pub const PROP: Property = Property { id: "C16", run, finish, shards: |_| 16, expect_s: |t| t.of(40, 400) };

/// literal leaves that are in the parser's image (no NaN, no DateTime/Duration literals)
fn literal_leaves() -> Vec<(&'static str, Expr)> {
    let s = |x: &str| Expr::Value(Value::String(x.to_string()));
    vec![
        ("string-plain", s("abc")),
        ("string-empty", s("")),
        ("string-quote", s("a\"b")),
        ("string-backslash", s("a\\b")),
        ("string-trailing-backslash", s("a\\")),
        ("string-backslash-quote", s("\\\"")),
        ("string-newline", s("a\nb")),
        ("string-tab-cr", s("a\t\rb")),
        ("string-nul", s("a\0b")),
        ("string-comment-like", s("// x")),
        ("string-non-ascii", s("é中\u{1F600}\u{2028}")),
        ("string-single-quote", s("it's")),
        ("string-escape-char", s("a\u{1b}[1mb")),
        ("string-unit-separator", s("x\u{1f}y")),
        ("string-delete", s("\u{7f}")),
        ("string-c1-controls", s("\u{85}\u{9b}\u{9f}")),
        ("string-bell-backspace", s("\u{7}\u{8}\u{b}\u{c}\u{e}")),
        ("string-bom-zwj", s("\u{feff}\u{200d}\u{200e}")),
        ("int-zero", Expr::Value(Value::Int(0))),
        ("int-negative", Expr::Value(Value::Int(-5))),
        ("int-max", Expr::Value(Value::Int(i128::MAX))),
        ("int-min", Expr::Value(Value::Int(i128::MIN))),
        ("float-integral", Expr::Value(Value::Float(5.0))),
        ("float-fraction", Expr::Value(Value::Float(0.1))),
        ("float-negative-zero", Expr::Value(Value::Float(-0.0))),
        ("float-max", Expr::Value(Value::Float(f64::MAX))),
        ("float-min-positive", Expr::Value(Value::Float(f64::MIN_POSITIVE))),
        ("float-subnormal", Expr::Value(Value::Float(5e-324))),
        ("float-infinity", Expr::Value(Value::Float(f64::INFINITY))),
        ("float-negative-infinity", Expr::Value(Value::Float(f64::NEG_INFINITY))),
        ("float-1e21", Expr::Value(Value::Float(1e21))),
        ("decimal-plain", Expr::Value(Value::Decimal(Decimal::new(55, 1)))),
        ("decimal-max", Expr::Value(Value::Decimal(Decimal::MAX))),
        ("decimal-min", Expr::Value(Value::Decimal(Decimal::MIN))),
        ("decimal-scale28", Expr::Value(Value::Decimal(Decimal::new(1, 28)))),
        ("decimal-trailing-zeros", Expr::Value(Value::Decimal(Decimal::new(1500, 3)))),
        ("decimal-negative", Expr::Value(Value::Decimal(Decimal::from_str("-0.5").unwrap()))),
        ("bool-true", Expr::Value(Value::Bool(true))),
        ("bool-false", Expr::Value(Value::Bool(false))),
        ("none", Expr::Value(Value::None)),
        ("reference", Expr::Reference("abc".into())),
        ("reference-f", Expr::Reference("f".into())),
        ("reference-d", Expr::Reference("d".into())),
        ("reference-i", Expr::Reference("i".into())),
        ("reference-x1", Expr::Reference("x1".into())),
        ("reference-facts", Expr::Reference("facts".into())),
        ("symbol", Expr::Symbol("sym".into())),
    ]
}

/// build a node of the given kind from children (the 47 kinds)
fn mk(k: &str, mut cs: Vec<Expr>) -> Expr {
    for (name, ctor) in UNARY.iter() {
        if crate::c04::unary_kind(name) == k {
            return ctor(cs.remove(0));
        }
    }
    for (name, ctor) in BINARY.iter() {
        if crate::c04::binary_kind(name) == k {
            let a = cs.remove(0);
            let b = cs.remove(0);
            return ctor(a, b);
        }
    }
    match k {
        "Function" => Expr::func("fun", cs.remove(0)),
        "Index" => Expr::index(cs.remove(0), Index::from("fld")),
        "IndexNum" => Expr::index(cs.remove(0), Index::from(0usize)),
        "IndexBig" => Expr::index(cs.remove(0), Index::from(4_294_967_296usize)),
        "If" => {
            let a = cs.remove(0);
            let b = cs.remove(0);
            let c = cs.remove(0);
            Expr::iif(a, b, c)
        }
        "Vec" => Expr::Vec(cs),
        "Map" => {
            let mut m = BTreeMap::new();
            for (i, c) in cs.into_iter().enumerate() {
                m.insert(format!("k{i}"), c);
            }
            Expr::Map(m)
        }
        _ => panic!("mk {k}"),
    }
}

fn arity(k: &str) -> usize {
    match k {
        "Value" | "Reference" | "Symbol" => 0,
        "If" => 3,
        "Vec" | "Map" => 2,
        "Function" | "Index" | "IndexNum" | "IndexBig" => 1,
        _ => {
            if BINARY.iter().any(|(n, _)| crate::c04::binary_kind(n) == k) {
                2
            } else {
                1
            }
        }
    }
}

fn composite_kinds() -> Vec<&'static str> {
    let mut v: Vec<&'static str> = ALL_KINDS.iter().copied().filter(|k| arity(k) > 0).collect();
    v.push("IndexNum");
    v.push("IndexBig");
    v
}

enum Trip {
    Ok,
    /// not in the image via this text (our printer could not express it / parser rejected it)
    NotInImage,
    Fail { class: &'static str, rendering: String, detail: String },
}

/// One round trip starting from a tree that is already in the parser's image.
fn round_trip(t: &Expr) -> Trip {
    let rendering = match guard(|| t.to_string()) {
        Ok(s) => s,
        Err(p) => return Trip::Fail { class: "display-panicked", rendering: String::new(), detail: p },
    };
    match guard(|| Expr::parse(&rendering)) {
        Ok(Ok(t2)) => {
            // equal trees, and equal in what PartialEq does not see (the sign of a zero, the scale of a decimal)
            if &t2 == t && format!("{t2:?}") == format!("{t:?}") {
                Trip::Ok
            } else {
                Trip::Fail { class: "reparsed-to-different-tree", rendering, detail: clip(format!("{t2:?}"), 800) }
            }
        }
        Ok(Err(e)) => Trip::Fail { class: "rendering-does-not-parse", rendering, detail: clip(e.to_string(), 300) },
        Err(p) => Trip::Fail { class: "parser-panicked-on-rendering", rendering, detail: p },
    }
}

/// The rendering requested with formatting flags (width, alignment, precision, sign, alternate, zero padding): whatever Display does
/// with them, the text must still parse back to the same expression ("printing never changes ... literal values")
fn flagged_renderings(t: &Expr) -> Vec<(&'static str, String)> {
    vec![("{:12}", format!("{t:12}")), ("{:>60}", format!("{t:>60}")), ("{:^9}", format!("{t:^9}")), ("{:.2}", format!("{t:.2}")), ("{:9.1}", format!("{t:9.1}")), ("{:+}", format!("{t:+}")), ("{:#}", format!("{t:#}")), ("{:08}", format!("{t:08}")), ("{:-<7.0}", format!("{t:-<7.0}"))]
}

fn smallest_failing(t: &Expr) -> &Expr {
    for c in children(t) {
        if matches!(round_trip(c), Trip::Fail { .. }) {
            return smallest_failing(c);
        }
    }
    t
}

fn leaf_feature(e: &Expr) -> String {
    match e {
        Expr::Value(Value::String(s)) => {
            let mut f = vec![];
            if s.contains('"') { f.push("quote") }
            if s.contains('\\') { f.push("backslash") }
            if f.is_empty() { "String".into() } else { format!("String[{}]", f.join("+")) }
        }
        Expr::Value(Value::Float(x)) => {
            if x.is_infinite() { "Float[infinite]".into() } else if x.is_nan() { "Float[nan]".into() } else { "Float".into() }
        }
        Expr::Value(v) => crate::pools::ty(v).to_string(),
        Expr::Reference(n) if n == "f" || n == "d" => format!("Reference[{n}]"),
        Expr::Symbol(n) if n == "f" || n == "d" => format!("Symbol[{n}]"),
        other => kind(other).to_string(),
    }
}

/// rebuild `t` with child `slot` replaced
fn with_child(t: &Expr, slot: usize, new: Expr) -> Expr {
    let mut cs: Vec<Expr> = children(t).into_iter().cloned().collect();
    cs[slot] = new;
    match t {
        Expr::Function(n, _) => Expr::Function(n.clone(), Box::new(cs.remove(0))),
        Expr::Index(_, i) => Expr::Index(Box::new(cs.remove(0)), i.clone()),
        Expr::Map(m) => Expr::Map(m.keys().cloned().zip(cs).collect()),
        Expr::Vec(_) => Expr::Vec(cs),
        Expr::If(..) => mk("If", cs),
        other => mk(kind(other), cs),
    }
}

/// A signature that names the failing construct, not the instance: the smallest failing node and
/// the one child (slot, kind) whose replacement by a plain name makes the failure disappear.
fn describe(t: &Expr) -> String {
    let cs = children(t);
    if cs.is_empty() {
        return leaf_feature(t);
    }
    let idx = match t {
        Expr::Index(_, Index::Vec(_)) => "[num]",
        Expr::Index(_, Index::Map(_)) => "[field]",
        _ => "",
    };
    for slot in 0..cs.len() {
        let probe = with_child(t, slot, Expr::Reference("z".into()));
        if matches!(round_trip(&probe), Trip::Ok) {
            let s = if cs.len() == 1 { String::new() } else { format!(" operand {}", if slot == 0 { "left/first".to_string() } else { format!("#{}", slot + 1) }) };
            return format!("{}{idx}{s} = {}", kind(t), leaf_feature(cs[slot]));
        }
    }
    format!("{}{idx}({})", kind(t), cs.iter().map(|c| leaf_feature(c)).collect::<Vec<_>>().join(","))
}

fn judge(ctx: &mut Ctx, built: &Expr, family: &str, rng: &mut Rng) {
    // put the tree into the parser's image: harness printer -> Expr::parse
    let text = if rng.chance(1, 2) { to_text(built, Parens::Full) } else { to_text_random(built, rng) };
    let Some(text) = text else {
        ctx.hit("not-expressible-as-text");
        return;
    };
    ctx.begin(|| format!("{family}\t{text}"));
    let t = match guard(|| Expr::parse(&text)) {
        Ok(Ok(t)) => t,
        _ => {
            ctx.hit("source-text-not-parsed");
            return;
        }
    };
    ctx.count();
    ctx.hit(&format!("family:{family}"));
    crate::gen::walk(&t, &mut |n| {
        for (slot, c) in children(n).into_iter().enumerate() {
            ctx.hit(&format!("pair:{}>{}@{}", kind(n), kind(c), slot.min(2)));
        }
    });
    ctx.nontrivial(fnv(format!("{t:?}").as_bytes()));
    match round_trip(&t) {
        Trip::Ok => {
            ctx.hit("round-trips");
            // consequence clause: T and parse(print(T)) evaluate identically — they are equal trees, so
            // evaluate T and the re-parsed tree on an input and compare outcomes
            if ctx.evaluations % 4 == 0 {
                let t2 = Expr::parse(&t.to_string()).unwrap();
                let facts = Value::None;
                let (a, b) = (eval_real(&t, &facts), eval_real(&t2, &facts));
                ctx.hit("evaluated-both");
                if show_obs(&a) != show_obs(&b) {
                    ctx.violation(format!("C16 evaluates-differently {}", describe(&t)), "a tree and its re-parsed rendering evaluate differently".to_string(), json!({"text": text, "a": show_obs(&a), "b": show_obs(&b)}));
                }
            }
            // the rendering requested with formatting flags (small trees only: the flags may multiply the text)
            if ctx.evaluations % 8 == 1 && t.to_string().len() < 400 {
                if let Ok(fl) = guard(|| flagged_renderings(&t)) {
                    for (spec, r) in fl {
                        ctx.hit("rendered-with-format-flags");
                        match guard(|| Expr::parse(&r)) {
                            Ok(Ok(back)) if back == t => {}
                            other => {
                                let how = match other { Ok(Ok(_)) => "reparsed-to-different-tree", Ok(Err(_)) => "rendering-does-not-parse", Err(_) => "parser-panicked-on-rendering" };
                                ctx.violation(format!("C16 {how} with format flags {spec}"), format!("the rendering requested with {spec} does not parse back to the expression"), json!({"source_text": clip(text.clone(), 300), "rendering": clip(r, 400), "plain_rendering": clip(t.to_string(), 300)}));
                                break;
                            }
                        }
                    }
                } else {
                    ctx.violation("C16 display-panicked with format flags".to_string(), "Display panicked when formatting flags were given".to_string(), json!({"source_text": clip(text.clone(), 300)}));
                }
            }
            ctx.sample(family, || json!({"source": clip(text.clone(), 150), "rendering": clip(t.to_string(), 200)}));
        }
        Trip::NotInImage => {}
        Trip::Fail { .. } => {
            let sub = smallest_failing(&t);
            if let Trip::Fail { class, rendering, detail } = round_trip(sub) {
                ctx.violation(
                    format!("C16 {class} {}", describe(sub)),
                    format!("the rendering of a parsed expression does not parse back to it ({class})"),
                    json!({"source_text": clip(text, 400), "smallest_failing_subtree": clip(format!("{sub:?}"), 600), "its_rendering": clip(rendering, 400), "detail": detail}),
                );
            }
        }
    }
}

fn run(ctx: &mut Ctx) {
    let mut rng = ctx.rng.clone();
    let leaves = literal_leaves();
    let comps = composite_kinds();
    // 1. every leaf alone and under every composite kind in every slot
    for (_, l) in &leaves {
        if ctx.mine() {
            judge(ctx, l, "leaf", &mut rng);
        }
        for k in &comps {
            for slot in 0..arity(k) {
                if !ctx.mine() {
                    continue;
                }
                let cs: Vec<Expr> = (0..arity(k)).map(|i| if i == slot { l.clone() } else { Expr::Reference(format!("r{i}")) }).collect();
                judge(ctx, &mk(k, cs), "leaf-under-composite", &mut rng);
            }
        }
    }
    // 1b. every character below U+0100 (and a few beyond) as the content of a string literal
    for cp in (0u32..0x100).chain([0x2028, 0x2029, 0xFFFD, 0xFFFF, 0x10000, 0x10FFFF]) {
        if !ctx.mine() {
            continue;
        }
        let c = char::from_u32(cp).unwrap();
        judge(ctx, &Expr::Value(Value::String(format!("a{c}b"))), "string-each-low-character", &mut rng);
    }
    // 1c. names: every identifier position (reference, symbol, function name, field step, map key) with names that collide with
    // literal prefixes or keywords up to one character (f, d, i, e, x, f_, d0x, i5x, inx, nonex …), alone and under every composite kind
    let names: Vec<String> = {
        let mut v: Vec<String> = (b'a'..=b'z').map(|c| (c as char).to_string()).collect();
        for n in ["E", "F", "D", "I", "_", "__", "_1", "f_", "d_", "i_", "f_1", "d0x", "f1e", "f1e5x", "i5x", "x0", "a1", "facts", "facts_", "é", "nonex", "truex", "falsey", "inx", "in_", "ifx", "thenx", "elsex", "andx", "orx", "somex", "intx", "decx", "floatx", "fd", "df", "ff", "dd", "e5", "x1f", "b0b", "o0o"] {
            v.push(n.to_string());
        }
        v
    };
    for n in &names {
        let nodes: Vec<Expr> = vec![
            Expr::Reference(n.clone()),
            Expr::Symbol(n.clone()),
            Expr::func(n, Expr::Reference("r".into())),
            Expr::index(Expr::Reference("r".into()), Index::from(n.as_str())),
            Expr::Map([(n.clone(), Expr::Reference("r".into()))].into_iter().collect()),
            Expr::index(Expr::Symbol("r".into()), Index::from(n.as_str())),
        ];
        for node in nodes {
            if !ctx.mine() {
                continue;
            }
            judge(ctx, &node, "names-in-every-identifier-position", &mut rng);
            for k in &comps {
                for slot in 0..arity(k) {
                    let cs: Vec<Expr> = (0..arity(k)).map(|i| if i == slot { node.clone() } else { Expr::Reference(format!("r{i}")) }).collect();
                    judge(ctx, &mk(k, cs), "names-in-every-identifier-position", &mut rng);
                }
            }
            // numeric steps of several shapes directly after the name
            for ix in [4usize, 14, 0, 1_000_000] {
                judge(ctx, &Expr::index(Expr::index(node.clone(), Index::from(ix)), Index::from(ix)), "names-in-every-identifier-position", &mut rng);
            }
        }
    }
    // 1d. long lists and maps (a rendering that wraps or abbreviates beyond some length must still parse back)
    for n in [13usize, 33, 65, 129, 257, 1_025, 5_000] {
        if !ctx.mine() {
            continue;
        }
        judge(ctx, &Expr::Vec((0..n).map(|i| Expr::value(i as i128)).collect()), "long-lists-and-maps", &mut rng);
        judge(ctx, &Expr::Vec((0..n).map(|i| if i % 3 == 0 { Expr::value(format!("s\n{i}")) } else { Expr::Reference(format!("r{i}")) }).collect()), "long-lists-and-maps", &mut rng);
        judge(ctx, &Expr::Map((0..n).map(|i| (format!("k{i}"), Expr::value(i as i128))).collect()), "long-lists-and-maps", &mut rng);
        judge(ctx, &Expr::func("fun", Expr::Vec((0..n).map(|i| Expr::Vec(vec![Expr::value(i as i128)])).collect())), "long-lists-and-maps", &mut rng);
    }
    // 1e. long strings with multi-byte characters at and around every power-of-two byte offset (a rendering that works in blocks must not split them)
    for b in [64usize, 256, 1_024, 4_096, 8_192, 16_384, 32_768, 65_536, 131_072] {
        for pad in b - 4..=b + 1 {
            if !ctx.mine() {
                continue;
            }
            for filler in ["é€😀", "\\\"", "\n\u{7f}é"] {
                let s = format!("{}{filler}{}{filler}", "a".repeat(pad), "b".repeat(b / 2 + 3));
                judge(ctx, &Expr::Value(Value::String(s)), "long-strings-with-multibyte-characters-at-block-boundaries", &mut rng);
            }
        }
    }
    // 2. every composite kind in every child slot of every composite kind
    for outer in &comps {
        for slot in 0..arity(outer) {
            for inner in &comps {
                if !ctx.mine() {
                    continue;
                }
                let ics: Vec<Expr> = (0..arity(inner)).map(|i| Expr::Reference(format!("x{i}"))).collect();
                let i = mk(inner, ics);
                let cs: Vec<Expr> = (0..arity(outer)).map(|p| if p == slot { i.clone() } else { Expr::Reference(format!("r{p}")) }).collect();
                judge(ctx, &mk(outer, cs), "composite-under-composite", &mut rng);
            }
        }
    }
    // 2b. three levels: a delicate leaf under every composite under every composite, in every pair of slots
    let hard: Vec<Expr> = vec![
        Expr::Value(Value::Int(-5)), Expr::Value(Value::Float(-2.5)), Expr::Value(Value::Float(1e300)), Expr::Value(Value::Float(1e-7)), Expr::Value(Value::Decimal(Decimal::new(-5, 1))),
        Expr::Value(Value::String("ends with backslash\\".into())), Expr::Value(Value::String("q\"".into())), Expr::Reference("f".into()), Expr::Symbol("d".into()), Expr::Map([("k".to_string(), Expr::Reference("r".into()))].into_iter().collect()),
        Expr::Vec(vec![]), Expr::Value(Value::None), Expr::Value(Value::Bool(true)),
    ];
    let stride = ctx.tier.of(8, 1);
    let mut counter = 0usize;
    for outer in &comps {
        for oslot in 0..arity(outer) {
            for mid in &comps {
                for mslot in 0..arity(mid) {
                    for l in &hard {
                        counter += 1;
                        if !ctx.mine() || counter % stride != 0 {
                            continue;
                        }
                        let mcs: Vec<Expr> = (0..arity(mid)).map(|i| if i == mslot { l.clone() } else { Expr::Reference(format!("x{i}")) }).collect();
                        let m = mk(mid, mcs);
                        let ocs: Vec<Expr> = (0..arity(outer)).map(|i| if i == oslot { m.clone() } else { Expr::Reference(format!("r{i}")) }).collect();
                        judge(ctx, &mk(outer, ocs), "three-levels", &mut rng);
                    }
                }
            }
        }
    }
    // 3. random trees to depth 6 over the boundary pool
    let pool = pool();
    let n = ctx.tier.of(20_000, 200_000);
    let (_, fields) = std_facts(&pool, &mut rng);
    let cfg = GenCfg { fns: vec!["fun"], symbols: vec![("sym".into(), "Int")], fields, chaos: 50 };
    for _ in 0..n {
        let want = crate::pools::TYPES[rng.below(10)];
        let depth = 1 + rng.below(6);
        let e = Gen { rng: &mut rng, pool: &pool, cfg: &cfg }.gen(want, depth);
        judge(ctx, &e, "random", &mut rng);
    }
    ctx.rng = rng;
}

fn finish(m: &Merged, tier: Tier) -> Finish {
    let mut f = Finish {
        rule: "a tree is generated, written by the harness printer and parsed by Expr::parse: the result T is in the parser's image by construction. Then T.to_string() is parsed again and must equal T; every 4th pair is also evaluated and compared. Trees: 41 literal/name leaves alone and under every composite node kind in every slot; every composite kind under every composite kind in every slot; ~70 look-alike names (f, d, i, e, x, d0x, i5x, inx, nonex ...) in every identifier position (reference, symbol, function name, field step, map key) alone, under every composite and before numeric indexes; lists and maps of 13..5000 items; random trees to depth 6 over the boundary pool. A failure is reduced to the smallest failing sub-expression, whose construct is the signature. Every case is non-trivial; distinct by tree".into(),
        exhaustive: false,
        exhaustive_part: "leaf x composite x slot and composite x composite x slot products are complete".into(),
        ..Default::default()
    };
    // parent kind > child kind pairs among composite kinds (46 parent kinds with children x 47)
    let pairs = m.prefix_count("pair:");
    f.floors.push(floor(format!("parent>child@slot kind pairs rendered: {pairs}"), pairs >= 3_000));
    f.floors.push(floor(format!("trees that round-trip: {}", m.c("round-trips")), m.c("round-trips") >= tier.of(200_000, 2_000_000)));
    f.floors.push(floor(format!("pairs also evaluated: {}", m.c("evaluated-both")), m.c("evaluated-both") >= 10_000));
    f.extras.insert("families".into(), json!(m.prefix_map("family:")));
    f.extras.insert("kind_pairs".into(), json!(pairs));
    f.extras.insert("not_expressible_as_text".into(), json!(m.c("not-expressible-as-text")));
    f.assumptions = vec!["trees containing NaN, DateTime or Duration literals, or names that are not plain identifiers, are outside the parser's image and are not tested".into()];
    if tier == Tier::Thorough {
        crate::fuzzleg::attach(&mut f, "C16", 150);
    }
    f
}
