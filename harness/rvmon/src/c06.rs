//! C06 — parsing any text (as an expression or as a rule) returns a tree or a parse error,
//! never a panic; out-of-range numerals / indices and bad escapes are parse errors.

use crate::core::{floor, guard, panic_site, Ctx, Finish, Merged, Property, Tier};
use crate::evalcommon::clip;
use crate::gen::{std_facts, Gen, GenCfg};
use crate::pools::pool;
use crate::print::to_text_random;
use crate::rng::{fnv, Rng};
use reval::expr::Expr;
use reval::prelude::Rule;
use serde_json::json;

pub const PROP: Property = Property { id: "C06", run, finish, shards: |_| 16, expect_s: |t| t.of(60, 600) };

const BIG: &str = "99999999999999999999999999999999999999999";

fn alphabet() -> Vec<String> {
    let mut v: Vec<String> = ["a", ".", "(", ")", "[", "]", "{", ":", ",", "@", ";", "-", "if", "then", "//", "\n", "\"", "\"\\", "\"\\q\"", "\"\\u{110000}\"", "\"\\u{D800}\"", "\"\\u{}\"", "\"\\u{41\"", "0o8", "f1e999999"]
        .iter()
        .map(|s| s.to_string())
        .collect();
    v.push(BIG.to_string()); // INDEX position when it follows '.'
    v.push(format!("i{BIG}"));
    v.push(format!("0x{}", "f".repeat(40)));
    v.push(format!("0b{}", "1".repeat(130)));
    v.push(format!("d{BIG}"));
    v.push("d0.00000000000000000000000000000000001".to_string());
    v
}

#[derive(PartialEq)]
enum Want {
    /// any of Ok / Err is fine
    NoPanic,
    /// the statement names this case: it must be reported as a parse error
    MustReject,
}

fn judge(ctx: &mut Ctx, text: &str, family: &str, want: Want) {
    ctx.begin(|| format!("{family}\t{text}"));
    ctx.hit(&format!("family:{family}"));
    for (entry, r) in [("Expr::parse", guard(|| Expr::parse(text).map(|_| ()).map_err(|e| e.to_string()))), ("Rule::parse", guard(|| Rule::parse(text).map(|_| ()).map_err(|e| e.to_string())))] {
        ctx.count();
        match r {
            Err(p) => {
                let msg = p.rsplit_once(" @ ").map(|x| x.0).unwrap_or(&p);
                // strip the concrete payload after ':' so that one defect has one signature
                let class: String = msg.split([':', ';', '`', '"', '\'']).next().unwrap_or(msg).chars().map(|c| if c.is_ascii_digit() { '#' } else { c }).collect();
                let class = class.replace("##", "#").replace("##", "#").replace("##", "#");
                ctx.violation(format!("C06 panic {entry} [{}] {}", panic_site(&p), clip(class.clone(), 80)), format!("the parser panicked: {p}"), json!({"text": text, "entry": entry, "family": family}));
            }
            Ok(Ok(())) => {
                ctx.hit(&format!("outcome:{entry}:accepted"));
                if want == Want::MustReject && entry == "Expr::parse" {
                    ctx.violation(format!("C06 accepted-malformed {family}"), "a literal / index / escape that the statement says must be a parse error was accepted".to_string(), json!({"text": text, "entry": entry}));
                }
                ctx.nontrivial(fnv(format!("{entry}|{text}").as_bytes()));
            }
            Ok(Err(_)) => {
                ctx.hit(&format!("outcome:{entry}:rejected"));
                if want == Want::MustReject {
                    ctx.hit("named-cases-rejected");
                }
                // rejected because of a malformed literal is the interesting half: count all rejected as non-trivial too
                ctx.nontrivial(fnv(format!("{entry}|{text}").as_bytes()));
            }
        }
    }
    ctx.sample(family, || json!({"text": clip(text.to_string(), 200)}));
}

fn sequences(ctx: &mut Ctx, max_len: usize, alpha: &[String]) {
    let n = alpha.len();
    for len in 1..=max_len {
        let total = n.pow(len as u32);
        for code in 0..total {
            if !ctx.mine() {
                continue;
            }
            let mut c = code;
            let mut parts = Vec::with_capacity(len);
            for _ in 0..len {
                parts.push(alpha[c % n].as_str());
                c /= n;
            }
            // alternate between space-separated and fused renderings
            let text = if code % 3 == 0 { parts.join("") } else { parts.join(" ") };
            judge(ctx, &text, "token-sequences", Want::NoPanic);
        }
    }
}

fn named(ctx: &mut Ctx) {
    let mut texts: Vec<String> = vec![];
    let big = |k: usize| format!("1{}", "0".repeat(k));
    // 10^k - 1 (all nines) just beyond each type's capacity: 29 digits for Decimal, 39 for Int
    for t in ["d99999999999999999999999999999", "d-99999999999999999999999999999", "d80000000000000000000000000000", "i999999999999999999999999999999999999999", "[d79228162514264337593543950336]"] {
        judge(ctx, t, "named-must-reject", Want::MustReject);
    }
    for k in [39usize, 40, 60, 200] {
        texts.push(format!("i{}", big(k)));
        texts.push(format!("i-{}", big(k)));
        texts.push(format!("a + i{}", big(k)));
        texts.push(format!("0x{}", "f".repeat(k)));
        texts.push(format!("0o{}", "7".repeat(k + 10)));
        texts.push(format!("0b{}", "1".repeat(k * 4)));
        texts.push(format!("d{}", big(k)));
        texts.push(format!("[d-{}]", big(k)));
        // list index out of range, in every syntactic spot an index can take
        texts.push(format!("a.{}", big(k)));
        texts.push(format!("a.b.{}", big(k)));
        texts.push(format!("a.0.{}.c", big(k)));
        texts.push(format!("[a].{}", big(k)));
        texts.push(format!("f(a).{}", big(k)));
        texts.push(format!("(a).{} + i1", big(k)));
        texts.push(format!("{{k: a.{}}}", big(k)));
        texts.push(format!("if a.{} then a else a", big(k)));
    }
    texts.push("a.18446744073709551616".into());
    texts.push("a.99999999999999999999999".into());
    texts.push("i170141183460469231731687303715884105728".into());
    texts.push("i-170141183460469231731687303715884105729".into());
    texts.push("0x80000000000000000000000000000000".into());
    texts.push("d79228162514264337593543950336".into());
    texts.push("0o8".into());
    texts.push("0o18".into());
    for esc in ["\\q", "\\a", "\\0", "\\x41", "\\ ", "\\U{41}", "\\u", "\\u41", "\\u{}", "\\u{110000}", "\\u{D800}", "\\u{DFFF}", "\\u{FFFFFFFFF}", "\\u{zz}", "\\u{12 34}", "\\é", "\\\u{2028}"] {
        texts.push(format!("\"{esc}\""));
        texts.push(format!("\"abc{esc}def\""));
        texts.push(format!("[\"{esc}\", a]"));
    }
    for (i, t) in texts.iter().enumerate() {
        if i % ctx.nshards != ctx.shard {
            continue;
        }
        judge(ctx, t, "named-must-reject", Want::MustReject);
        // the same literal inside a rule with metadata
        let rule = format!("// name\n@k: {t};\n{t}");
        judge(ctx, &rule, "named-in-rule", Want::NoPanic);
    }
}

fn magnitudes(ctx: &mut Ctx) {
    let mut k = 0u64;
    for e in 0..=60usize {
        for delta in [0i32, -1, 1] {
            let digits = {
                // 10^e + delta as a decimal string
                if e == 0 {
                    format!("{}", 1 + delta.max(0))
                } else if delta == 0 {
                    format!("1{}", "0".repeat(e))
                } else if delta < 0 {
                    "9".repeat(e)
                } else {
                    format!("1{}1", "0".repeat(e - 1))
                }
            };
            let templates = [
                format!("i{digits}"), format!("i-{digits}"), format!("i+{digits}"), format!("0x{digits}"), format!("0o{}", digits.replace(['8', '9'], "7")), format!("0b{}", "1".repeat(e * 3 + 1)),
                format!("d{digits}"), format!("d-{digits}"), format!("d0.{digits}"), format!("d{digits}.{digits}"), format!("d.{digits}"), format!("f{digits}"), format!("f1e{digits}"), format!("f1e-{digits}"),
                format!("f.{digits}e{digits}"), format!("a.{digits}"), format!("[a, a].{digits}.{digits}"), format!("@k: i{digits}; a.{digits}"), format!("// n\n@k: [d{digits}, {{z: 0x{digits}}}]; i1"),
            ];
            for t in templates {
                k += 1;
                if (k as usize) % ctx.nshards != ctx.shard {
                    continue;
                }
                judge(ctx, &t, "magnitudes", Want::NoPanic);
            }
        }
    }
}

fn escapes(ctx: &mut Ctx) {
    // every escape form x every following character class
    let mut followers: Vec<char> = (0u8..128).map(|b| b as char).collect();
    followers.extend(['é', 'ß', '\u{a0}', '\u{2028}', '\u{feff}', '中', '\u{1F600}', '\u{10FFFF}', '\u{301}']);
    let mut k = 0usize;
    for c in &followers {
        for tmpl in ["\"\\{}\"", "\"x\\{}y\"", "\"\\{}", "\"\\\\\\{}\"", "\"\\u{{{}}}\"", "\"\\u{}\"", "\"\\u{{4{}}}\"", "\"\\u{{{}"] {
            k += 1;
            if k % ctx.nshards != ctx.shard {
                continue;
            }
            let t = tmpl.replace("{{", "\u{1}").replace("}}", "\u{2}").replace("{}", &c.to_string()).replace('\u{1}', "{").replace('\u{2}', "}");
            judge(ctx, &t, "escapes", Want::NoPanic);
        }
    }
    for len in 0..=10 {
        for digit in ["0", "f", "F", "1", "D8"] {
            k += 1;
            if k % ctx.nshards != ctx.shard {
                continue;
            }
            let t = format!("\"\\u{{{}}}\"", digit.repeat(len));
            judge(ctx, &t, "escapes-hex-lengths", Want::NoPanic);
        }
    }
}

/// long tokens made of multi-byte characters in positions where they are a syntax error: whatever the parser
/// does with the offending token in its error message (echo, excerpt, truncate) must respect char boundaries
fn long_tokens_in_error_position(ctx: &mut Ctx) {
    let mut k = 0usize;
    for ch in ['é', '€', '\u{1F600}', 'x'] {
        for n in (1..=40).chain((44..=260).step_by(3)) {
            for pad in 0..4 {
                k += 1;
                if k % ctx.nshards != ctx.shard {
                    continue;
                }
                let body: String = format!("{}{}", "a".repeat(pad), ch.to_string().repeat(n));
                let ident: String = format!("z{}", "y".repeat(n + pad));
                for t in [
                    format!("[\"ok\" \"{body}\"]"), format!("a \"{body}\""), format!("\"{body}\" \"{body}\""), format!("// n\n@k: i1 \"{body}\";\ntrue"), format!("if x then \"y\" \"{body}\""),
                    format!("\"{body}\\q\""), format!("\"\\q{body}\""), format!("// {body}\n// {body}\n@k: \"{body}\";\n\"{body}\" +"), format!("a {ident}"), format!("{ident} {ident}"),
                    format!("//{}\n//\u{a0}{body}\n//\u{3000}\u{2003}{body}\ni1", &body), format!("\"{body}"), format!("{body}"),
                ] {
                    judge(ctx, &t, "long-multibyte-tokens-in-error-position", Want::NoPanic);
                }
            }
        }
    }
}

fn mutate(rng: &mut Rng, text: &str) -> String {
    let mut chars: Vec<char> = text.chars().collect();
    let n = 1 + rng.below(3);
    let inserts = ['\u{0}', '\u{7}', '\u{1b}', '"', '\\', '(', ')', '[', ']', '{', '}', '.', '@', ';', ':', '/', '\r', '\n', '\u{a0}', 'é', '中', '\u{1F600}', '\u{202e}', '9', 'e', '_', '#', '$', '\''];
    for _ in 0..n {
        if chars.is_empty() {
            chars.push(*rng.pick(&inserts));
            continue;
        }
        let i = rng.below(chars.len());
        match rng.below(6) {
            0 => {
                chars.remove(i);
            }
            1 => {
                let c = chars[i];
                chars.insert(i, c);
            }
            2 => chars[i] = *rng.pick(&inserts),
            3 => chars.insert(i, *rng.pick(&inserts)),
            4 => {
                // delete / duplicate a whole "token" (run up to the next space)
                let j = chars[i..].iter().position(|c| *c == ' ').map(|p| i + p).unwrap_or(chars.len());
                if rng.chance(1, 2) {
                    chars.drain(i..j);
                } else {
                    let dup: Vec<char> = chars[i..j].to_vec();
                    for (k, c) in dup.into_iter().enumerate() {
                        chars.insert(j + k, c);
                    }
                }
            }
            _ => {
                // splice in a long digit run (out-of-range numeral in whatever position this is)
                for (k, c) in "99999999999999999999999999999999999999999".chars().enumerate() {
                    chars.insert(i + k, c);
                }
            }
        }
    }
    chars.into_iter().collect()
}

fn mutated(ctx: &mut Ctx, n: usize) {
    let pool = pool();
    let mut rng = ctx.rng.clone();
    let (_, fields) = std_facts(&pool, &mut rng);
    let cfg = GenCfg { fns: vec!["fun"], symbols: vec![("sym".into(), "Int")], fields, chaos: 100 };
    for i in 0..n {
        let want = crate::pools::TYPES[rng.below(10)];
        let depth = 1 + rng.below(4);
        let e = Gen { rng: &mut rng, pool: &pool, cfg: &cfg }.gen(want, depth);
        let Some(mut text) = to_text_random(&e, &mut rng) else { continue };
        if i % 3 == 0 {
            text = format!("// rule name\r\n// description\n@meta: [i1, {{a: \"x\"}}];\n@name: \"n\";\n{text}\n// trailing");
        }
        if i % 10 == 0 {
            judge(ctx, &text, "generated-valid", Want::NoPanic);
        }
        let m = mutate(&mut rng, &text);
        judge(ctx, &m, "generated-mutated", Want::NoPanic);
    }
    ctx.rng = rng;
}

fn random_strings(ctx: &mut Ctx, n: usize) {
    let mut rng = ctx.rng.clone();
    let classes: [&[char]; 6] = [
        &['a', 'i', 'f', 'd', 'e', 'x', 'o', 'b', '0', '1', '9', '_'],
        &['"', '\\', '/', '\n', '\r', '\t', ' ', '\u{a0}', '\u{2028}'],
        &['(', ')', '[', ']', '{', '}', ',', ':', ';', '.', '@'],
        &['+', '-', '*', '%', '!', '=', '<', '>', '&', '|', '^'],
        &['\u{0}', '\u{7f}', 'é', '中', '\u{1F600}', '\u{301}', '\u{feff}', '\u{10FFFF}'],
        &['n', 'u', 't', 'r', 'h', 'o', 'm', 's', 'c', 'l'],
    ];
    for _ in 0..n {
        let len = rng.below(40);
        let mut s = String::new();
        for _ in 0..len {
            let c = classes[rng.below(classes.len())];
            s.push(c[rng.below(c.len())]);
        }
        judge(ctx, &s, "random-strings", Want::NoPanic);
    }
    ctx.rng = rng;
}

/// string literals over an alphabet made of the pieces of escapes: backslash, u, braces, hex digits, quote letters — inside quotes,
/// so the unescaper sees every arrangement of complete, broken and look-alike escapes next to literal braces
fn escape_soup(ctx: &mut Ctx, n: usize) {
    let mut rng = ctx.rng.clone();
    let pieces = ["\\", "\\", "u", "{", "}", "{", "}", "4", "1", "d", "8", "0", "f", "F", "n", "t", "r", "'", "\\\"", "\\u{41}", "\\u{", "\\u", "\\n", "\\\\", "x", " ", "é", "\u{1F600}", "10ffff", "110000", "d800"];
    // every arrangement of up to 3 pieces, then random longer ones
    ctx.align();
    for a in 0..pieces.len() {
        for b in 0..=pieces.len() {
            for c in 0..=pieces.len() {
                if !ctx.mine() {
                    continue;
                }
                let body = format!("{}{}{}", pieces[a], pieces.get(b).unwrap_or(&""), pieces.get(c).unwrap_or(&""));
                judge(ctx, &format!("\"{body}\""), "escape-soup", Want::NoPanic);
            }
        }
    }
    for _ in 0..n {
        let body: String = (0..1 + rng.below(12)).map(|_| *rng.pick(&pieces)).collect();
        let text = match rng.below(4) {
            0 => format!("\"{body}\""),
            1 => format!("[\"{body}\", \"{body}\"]"),
            2 => format!("// n\n@k: \"{body}\";\nx == \"{body}\""),
            _ => format!("{{k: \"{body}\"}}.k"),
        };
        judge(ctx, &text, "escape-soup", Want::NoPanic);
    }
    ctx.rng = rng;
}

/// long texts: valid ones (big lists, maps, strings, comments, chains) and token soup of 20 - 200 KB
fn long_texts(ctx: &mut Ctx, n: usize) {
    let mut rng = ctx.rng.clone();
    if ctx.shard % 4 == 1 {
        let valid = [
            format!("[{}i1]", "i1, \"s\\n\", f1.5, ".repeat(20_000)),
            format!("{{{}z: none}}", (0..20_000).map(|i| format!("key_{i}: d{i}.5, ")).collect::<String>()),
            format!("\"{}\"", "é\\u{41}\\t".repeat(100_000)),
            format!("// {}\ni1 // {}\n", "c".repeat(500_000), "t".repeat(500_000)),
            format!("a{}", " + b.c.0 * i2".repeat(3_000)),
            format!("// n\n{}i1", (0..5_000).map(|i| format!("@k{i}: [i{i}, \"v\"];\n")).collect::<String>()),
            format!("{}i1", " \t\r\n\u{a0}".repeat(100_000)),
            format!("f({})", "g(".repeat(500) + "i1" + &")".repeat(500)),
            format!("{}", "i1 ".repeat(50_000)),
            format!("[{}", "[i1], ".repeat(50_000)),
            format!("\"{}", "unterminated ".repeat(50_000)),
            format!("{}\"", "x".repeat(300_000)),
        ];
        for t in &valid {
            judge(ctx, t, "long-texts", Want::NoPanic);
        }
    }
    let pieces = ["i1", "f1.5", "d2", "\"s\"", "\"\\u{41}\"", "a", "facts", ":s", "(", ")", "[", "]", "{", "}", ",", ":", ";", ".", ".0", "+", "-", "*", "/", "%", "&", "|", "^", "!", "==", "!=", "<", ">=", "and", "or", "if", "then", "else", "contains", "in", "none", "true", "int(", "f(", "@k:", "// c\n", "\n", " ", "\t", "é", "\u{1F600}", "0x1f", "i99999999999999999999999999999999999999999", "\"", "\\"];
    for _ in 0..n {
        let len = 2_000 + rng.below(20_000);
        let mut s = String::new();
        // mostly well-formed runs with occasional junk, so that the parser gets far before it gives up
        let valid_run = rng.chance(1, 2);
        for k in 0..len {
            if valid_run && k % 2 == 1 {
                s.push_str(*rng.pick(&[" + ", " * ", " and ", " == ", ", ", " - "]));
            } else if valid_run {
                s.push_str(*rng.pick(&["i1", "a.b", "f(x)", "[i1]", "\"s\"", "(i2)", "-i3", "{k: a}", "d1.5"]));
                if rng.chance(1, 2_000) {
                    s.push_str(*rng.pick(&pieces));
                }
            } else {
                s.push_str(*rng.pick(&pieces));
            }
        }
        judge(ctx, &s, "long-texts", Want::NoPanic);
    }
    ctx.rng = rng;
}

fn run(ctx: &mut Ctx) {
    long_texts(ctx, ctx.tier.of(12, 120));
    if ctx.shard == 3 {
        // \u{…} beyond 10FFFF whose low bits are a valid scalar value: a parse error, like every other out-of-range escape
        for t in ["\"\\u{100000041}\"", "\"\\u{f0000006B}\"", "\"\\u{ABCDEF010001F600}\"", "\"\\u{10000000000000041}\"", "\"\\u{1000041}\"", "\"\\u{200041}\""] {
            judge(ctx, t, "named-must-reject", Want::MustReject);
        }
    }
    named(ctx);
    escape_soup(ctx, ctx.tier.of(6_000, 120_000));
    magnitudes(ctx);
    escapes(ctx);
    long_tokens_in_error_position(ctx);
    let alpha = alphabet();
    match ctx.tier {
        Tier::Quick => sequences(ctx, 3, &alpha),
        Tier::Thorough => sequences(ctx, 4, &alpha),
    }
    mutated(ctx, ctx.tier.of(12_000, 250_000));
    random_strings(ctx, ctx.tier.of(6_000, 120_000));
    if ctx.shard == 0 {
        judge(ctx, "", "empty", Want::NoPanic);
    }
}

/// Parsing from unusual calling contexts, in a process of its own: inside the destructor of a thread-local value (registered before
/// and after the thread's first parse), during unwinding, from 300 short-lived threads, re-entrantly from a user function.
/// Prints one line per context; returns the exit code (0 = all contexts parsed what they should).
pub fn context_probe() -> i32 {
    use std::cell::RefCell;
    struct Journal(Vec<&'static str>, &'static str);
    impl Drop for Journal {
        fn drop(&mut self) {
            let mut ok = 0;
            for t in &self.0 {
                if Expr::parse(t).is_ok() && Rule::parse(&format!("// n\n{t}")).is_ok() {
                    ok += 1;
                }
            }
            println!("CONTEXT {} parsed {ok}/{}", self.1, self.0.len());
        }
    }
    thread_local! {
        static EARLY: RefCell<Journal> = const { RefCell::new(Journal(Vec::new(), "thread-local destructor registered before the first parse")) };
        static LATE: RefCell<Journal> = const { RefCell::new(Journal(Vec::new(), "thread-local destructor registered after the first parse")) };
    }
    let h = std::thread::spawn(|| {
        EARLY.with(|j| j.borrow_mut().0.extend(["a + b", "[i1, \"s\"]", "if x then y else z"]));
        let n = ["i1", "f(x).y", "{k: none}"].iter().filter(|t| Expr::parse(t).is_ok()).count();
        LATE.with(|j| j.borrow_mut().0.extend(["a + b", "-i5"]));
        let _ = Rule::parse("// r\ni1");
        println!("CONTEXT worker thread parsed {n}/3");
    });
    if h.join().is_err() {
        println!("CONTEXT worker thread panicked");
        return 1;
    }
    // during unwinding
    struct OnUnwind;
    impl Drop for OnUnwind {
        fn drop(&mut self) {
            println!("CONTEXT drop during unwinding parsed {}/1", Expr::parse("a contains b").is_ok() as u8);
        }
    }
    let _ = std::panic::catch_unwind(|| {
        let _g = OnUnwind;
        std::panic::resume_unwind(Box::new("boom"));
    });
    // many short-lived threads
    let hs: Vec<_> = (0..300).map(|i| std::thread::spawn(move || Expr::parse(&format!("i{i} + a")).is_ok() && Rule::parse(&format!("// n{i}\ni{i}")).is_ok())).collect();
    let ok = hs.into_iter().filter_map(|h| h.join().ok()).filter(|b| *b).count();
    println!("CONTEXT short-lived threads parsed {ok}/300");
    if ok != 300 {
        return 1;
    }
    println!("CONTEXT done");
    0
}

fn finish(m: &Merged, tier: Tier) -> Finish {
    let mut f = Finish {
        rule: "every text goes through Expr::parse and Rule::parse inside catch_unwind (process aborts are seen through the shard's exit status); oracle: Ok or Err, never a panic; the cases the statement names (out-of-range Int/hex/octal/binary/Decimal literal, out-of-range list index, unknown escape, \\u{} that is empty / > 10FFFF / a surrogate) must be Err. Texts: all sequences up to the length bound over a 31-symbol alphabet of token-class representatives and troublemakers (40-digit numerals in every numeric position, 0o8, lone quote, quote-backslash), numerals of magnitude 10^k (k <= 60) in 19 positions, every escape form x 137 following characters, generated valid texts with 1-3 mutations, random strings, an escape soup (all arrangements of up to 3 and random arrangements of up to 12 pieces of escapes - backslash, u, braces, hex digits, complete and broken escapes - inside string literals, lists, maps and rule metadata). Non-trivial: every (entry point, text) pair; distinct by that pair".into(),
        exhaustive: false,
        exhaustive_part: format!("token sequences of length <= {} over the alphabet, the magnitude grid and the escape grid are enumerated completely", tier.of(3, 4)),
        ..Default::default()
    };
    for fam in ["named-must-reject", "named-in-rule", "magnitudes", "escapes", "token-sequences", "generated-mutated", "random-strings", "escape-soup", "long-texts"] {
        f.floors.push(floor(format!("family {fam}: {} texts", m.c(&format!("family:{fam}"))), m.c(&format!("family:{fam}")) >= 100));
    }
    let acc = m.c("outcome:Expr::parse:accepted") + m.c("outcome:Rule::parse:accepted");
    f.floors.push(floor(format!("accepted texts: {acc} (the workload must not be all garbage)"), acc >= 5_000));
    f.extras.insert("families".into(), json!(m.prefix_map("family:")));
    f.extras.insert("outcomes".into(), json!(m.prefix_map("outcome:")));
    f.extras.insert("named_cases_rejected".into(), json!(m.c("named-cases-rejected")));
    f.assumptions = vec!["a panic is observed through catch_unwind (the harness is built with panic=unwind); a stack overflow or abort through the exit status of the shard process".into()];
    // parsing from unusual calling contexts, in a child process
    match std::env::current_exe().ok().and_then(|exe| std::process::Command::new(exe).arg("contextprobe").output().ok()) {
        Some(o) => {
            let out = String::from_utf8_lossy(&o.stdout).to_string();
            let lines: Vec<&str> = out.lines().filter(|l| l.starts_with("CONTEXT ")).collect();
            f.extras.insert("calling_contexts".into(), json!(lines));
            let complete = |l: &&str| l.rsplit(' ').next().map(|frac| frac.split_once('/').map(|(a, b)| a == b).unwrap_or(false)).unwrap_or(false);
            let all_ok = o.status.success() && out.contains("CONTEXT done") && lines.iter().filter(|l| l.contains(" parsed ")).all(complete) && lines.iter().filter(|l| l.contains("destructor")).count() == 2;
            if !all_ok {
                let sig = if o.status.success() { "C06 parse-fails-in-an-unusual-calling-context" } else { "C06 abort when parsing in an unusual calling context" };
                f.violations.push(crate::core::Violation { sig: sig.to_string(), what: format!("parsing inside a thread-local destructor / during unwinding / from short-lived threads: exit {:?}; {}", o.status, String::from_utf8_lossy(&o.stderr).lines().last().unwrap_or("")), case: json!({"contexts_completed": lines, "how_to_replay": "rvmon contextprobe"}), count: 1 });
            }
        }
        None => f.floors.push(floor("the calling-context probe could not be started".to_string(), false)),
    }
    if tier == Tier::Thorough {
        crate::fuzzleg::attach(&mut f, "C06", 150);
    }
    f
}
