//! Rulesets with instrumented functions, and the model-side prediction for a whole evaluation.

use crate::core::guard;
use crate::exec::{block_on, CURRENT_EVAL};
use crate::instr::{make_fns, Entry, FaultPlan, FnDesc, Log, ModelHost};
use crate::refeval::{classify, Exp, Obs, RefEval};
use reval::expr::Expr;
use reval::prelude::*;
use std::collections::BTreeMap;
use std::sync::Arc;

pub struct Fixture {
    pub ruleset: RuleSet,
    pub log: Arc<Log>,
    pub descs: Vec<FnDesc>,
    pub symbols: BTreeMap<String, Value>,
    pub plan: Arc<FaultPlan>,
    pub rules: Vec<(String, Expr)>,
}

pub fn build(descs: &[FnDesc], symbols: &BTreeMap<String, Value>, rules: &[(String, Expr)], plan: FaultPlan) -> Fixture {
    let log = Arc::new(Log::default());
    let plan = Arc::new(plan);
    let mut b = ruleset();
    // both ways of adding rules: one by one, or (for an even number of rules) the first one alone and the rest as one batch
    if rules.len() % 2 == 0 && !rules.is_empty() {
        let mut it = rules.iter().map(|(name, e)| Rule::new(name.clone(), BTreeMap::new(), e.clone()));
        b = b.with_rule(it.next().unwrap()).expect("fixture rule names are unique");
        b = b.with_rules(it.collect::<Vec<_>>()).expect("fixture rule names are unique");
    } else {
        for (name, e) in rules {
            b = b.with_rule(Rule::new(name.clone(), BTreeMap::new(), e.clone())).expect("fixture rule names are unique");
        }
    }
    for f in make_fns(descs, &log, &plan) {
        // functions named "dc…" are registered through a wrapper that keeps the trait's default cacheable()
        b = if f.desc.name == "zsta" || f.desc.name == "zstb" {
            *crate::instr::ZST_SINK.lock().unwrap() = Some((log.clone(), plan.clone()));
            if f.desc.name == "zsta" { b.with_function(crate::instr::ZstA).expect("valid") } else { b.with_function(crate::instr::ZstB).expect("valid") }
        } else if f.desc.name.starts_with("dc") {
            assert!(f.desc.cacheable, "a default-cacheable function must be described as cacheable");
            b.with_function(crate::instr::DefaultCacheable(f)).expect("fixture function names are valid")
        } else {
            b.with_function(f).expect("fixture function names are valid")
        };
    }
    for (k, v) in symbols {
        b = b.with_symbol(k, v.clone());
    }
    Fixture { ruleset: b.build(), log, descs: descs.to_vec(), symbols: symbols.clone(), plan, rules: rules.to_vec() }
}

pub struct EvalResult {
    /// (rule name, outcome) in the order returned
    pub outcomes: Vec<(String, Obs)>,
    pub log: Vec<Entry>,
}

impl Fixture {
    /// One straight-through evaluation on this thread.
    pub fn eval(&self, facts: &Value, eval_id: u64) -> Result<EvalResult, String> {
        self.log.take();
        CURRENT_EVAL.with(|c| c.set(eval_id));
        let r = guard(|| block_on(self.ruleset.evaluate_value(facts)));
        let log = self.log.take();
        match r {
            Ok(Ok(outs)) => Ok(EvalResult {
                outcomes: outs
                    .into_iter()
                    .map(|o| {
                        let obs = match o.value {
                            Ok(v) => Obs::Val(v),
                            Err(e) => classify(&e),
                        };
                        (o.rule.name().to_string(), obs)
                    })
                    .collect(),
                log,
            }),
            Ok(Err(e)) => Err(format!("evaluate_value returned Err({e})")),
            Err(p) => Err(format!("panic: {p}")),
        }
    }

    /// Model prediction for one evaluation: expected outcome per rule and expected invocations.
    pub fn predict(&self, facts: &Value) -> Prediction {
        self.predict_with(&self.descs, facts)
    }

    /// the same with other function descriptions (a function whose declared cacheability changed since the ruleset was built)
    pub fn predict_with(&self, descs: &[FnDesc], facts: &Value) -> Prediction {
        let mut host = ModelHost::new(descs, &self.symbols, &self.plan);
        let mut outcomes = vec![];
        let mut wide = false;
        for (name, e) in &self.rules {
            let mut r = RefEval::new(facts, &mut host);
            let x = r.eval(e);
            wide |= r.wide_hit;
            outcomes.push((name.clone(), x));
        }
        Prediction { outcomes, invocations: host.invocations.iter().map(|(n, a, o)| (n.to_string(), a.clone(), o.clone())).collect(), calls: host.calls.len(), cache_hits: host.cache_hits, wide }
    }
}

pub struct Prediction {
    pub outcomes: Vec<(String, Exp)>,
    pub invocations: Vec<(String, Value, Result<Value, String>)>,
    pub calls: usize,
    pub cache_hits: u64,
    pub wide: bool,
}

/// Compare an observed invocation log with the predicted one. None = identical.
pub fn diff_log(log: &[Entry], want: &[(String, Value, Result<Value, String>)]) -> Option<String> {
    use crate::refeval::same;
    for (i, (e, w)) in log.iter().zip(want.iter()).enumerate() {
        if e.func != w.0 || !same(&e.arg, &w.1) {
            // is it a reordering (same multiset) or a different call?
            return Some(format!("call #{i} is {}({:?}) but the model expects {}({:?})", e.func, e.arg, w.0, w.1));
        }
    }
    if log.len() > want.len() {
        let e = &log[want.len()];
        return Some(format!("extra invocation #{}: {}({:?})", want.len(), e.func, e.arg));
    }
    if log.len() < want.len() {
        let w = &want[log.len()];
        return Some(format!("missing invocation #{}: {}({:?})", log.len(), w.0, w.1));
    }
    None
}

pub fn diff_class(log: &[Entry], want: &[(String, Value, Result<Value, String>)]) -> &'static str {
    use crate::refeval::same;
    let same_multiset = log.len() == want.len() && {
        let mut used = vec![false; want.len()];
        log.iter().all(|e| {
            for (i, w) in want.iter().enumerate() {
                if !used[i] && e.func == w.0 && same(&e.arg, &w.1) {
                    used[i] = true;
                    return true;
                }
            }
            false
        })
    };
    if same_multiset {
        "order"
    } else if log.len() > want.len() {
        "extra-invocation"
    } else if log.len() < want.len() {
        "missing-invocation"
    } else {
        "different-call"
    }
}

pub fn show_log(log: &[Entry]) -> Vec<String> {
    log.iter().map(|e| format!("{}({:?}) -> {:?}", e.func, e.arg, e.outcome)).collect()
}

pub fn show_want(want: &[(String, Value, Result<Value, String>)]) -> Vec<String> {
    want.iter().map(|(n, a, o)| format!("{n}({a:?}) -> {o:?}")).collect()
}
