//! C01 — evaluation returns a value or an error, never a panic; an out-of-range numeric, date or
//! duration result is an error, never a wrapped / saturated / narrowed value.

use crate::core::{floor, guard, panic_site, Ctx, Finish, Merged, Property, Tier};
use crate::evalcommon::*;
use crate::gen::{kind, walk, ALL_KINDS};
use crate::print::to_text_random;
use crate::refeval::{Exp, Obs};
use crate::rng::fnv;
use crate::workload::{self, Case};
use reval::expr::Expr;
use serde_json::json;

pub const PROP: Property = Property { id: "C01", run, finish, shards: |_| 16, expect_s: |t| t.of(40, 400) };

fn note_kinds(ctx: &mut Ctx, e: &Expr) {
    walk(e, &mut |n| ctx.hit(&format!("kind:{}", kind(n))));
}

pub fn judge(ctx: &mut Ctx, c: Case) {
    ctx.begin(|| format!("{}\t{} on {:?}", if c.cell.is_empty() { kind(c.expr).to_string() } else { c.cell.clone() }, show_expr(c.expr), c.facts));
    ctx.count();
    let (exp, _wide) = eval_ref(c.expr, c.facts);
    let obs = eval_real(c.expr, c.facts);
    if !c.cell.is_empty() {
        ctx.hit(&format!("cell:{}", c.cell));
    }
    ctx.hit(&format!("family:{}", c.family));
    if c.cell.is_empty() || ctx.evaluations % 64 == 0 {
        note_kinds(ctx, c.expr);
    } else {
        ctx.hit(&format!("kind:{}", kind(c.expr)));
    }
    let interesting = matches!(&exp, Err(_)) || matches!(&obs, Obs::Val(reval::value::Value::Float(f)) if !f.is_finite());
    if interesting {
        ctx.nontrivial(fnv(format!("{:?}|{:?}", c.expr, c.facts).as_bytes()));
        match &exp {
            Err(e) if e.range => ctx.hit("outcome:range-failure-expected"),
            Err(_) => ctx.hit("outcome:error-expected"),
            _ => ctx.hit("outcome:nonfinite-float"),
        }
    }
    verdict(ctx, &c, &exp, &obs);
}

fn verdict(ctx: &mut Ctx, c: &Case, exp: &Exp, obs: &Obs) {
    // where did it go wrong? the reference's failing cell if it has one, else the depth-1 cell,
    // else the smallest failing subtree
    let locate = |c: &Case, exp: &Exp| -> String {
        if !c.cell.is_empty() {
            return c.cell.clone();
        }
        match localize(c.expr, c.facts) {
            Some((sub, _)) => node_cell(sub, c.facts),
            None => match exp {
                Err(e) if e.range => e.cell.clone(),
                _ => kind(c.expr).to_string(),
            },
        }
    };
    match obs {
        Obs::Panic(p) => {
            let cell = locate(c, exp);
            ctx.violation(format!("C01 panic {cell} [{}]", panic_site(p)), format!("evaluation panicked: {p}"), case_json(c.expr, c.facts, obs, exp));
        }
        Obs::Val(_) => {
            if let Err(e) = exp {
                if e.range && !e.wide {
                    ctx.violation(
                        format!("C01 silent-out-of-range {}", e.cell),
                        "a result outside the range of its type was returned as a value (wrapped / saturated / narrowed) instead of an error",
                        case_json(c.expr, c.facts, obs, exp),
                    );
                }
            }
            ctx.sample(&format!("ok:{}", c.family), || case_json(c.expr, c.facts, obs, exp));
        }
        Obs::Err { .. } => {
            ctx.sample(&format!("err:{}", c.family), || case_json(c.expr, c.facts, obs, exp));
        }
    }
}

/// Text route: print the tree with the harness printer, parse it with the real parser, and judge
/// the *parsed* tree with the same oracle (C01 speaks of trees "parsed from text or built through
/// the public constructors").
pub fn text_route(ctx: &mut Ctx, per_shard: usize) {
    let pool = workload::the_pool();
    let mut texts: Vec<(String, reval::value::Value)> = vec![];
    {
        let mut collect = |ctx: &mut Ctx, c: Case| {
            let mut rng = ctx.rng.clone();
            if let Some(t) = to_text_random(c.expr, &mut rng) {
                texts.push((t, c.facts.clone()));
            }
            ctx.rng = rng;
        };
        workload::random(ctx, &pool, per_shard * 2, 4, &mut collect);
    }
    texts.truncate(per_shard);
    for (t, facts) in texts {
        ctx.begin(|| format!("text-route\t{t}"));
        match guard(|| Expr::parse(&t)) {
            Ok(Ok(parsed)) => {
                judge(ctx, Case { expr: &parsed, facts: &facts, cell: String::new(), family: "text-route" });
            }
            Ok(Err(_)) => ctx.hit("text-route:rejected"),
            Err(p) => {
                // parse panics belong to C06, but a tree that cannot be obtained cannot be evaluated: note it
                ctx.hit("text-route:parse-panic");
                let _ = p;
            }
        }
    }
}

fn run(ctx: &mut Ctx) {
    let pool = workload::the_pool();
    let mut j = |ctx: &mut Ctx, c: Case| judge(ctx, c);
    workload::depth1(ctx, &pool, &mut j);
    workload::chains(ctx, &mut j);
    let n_rand = ctx.tier.of(300_000, 6_000_000);
    workload::random_operands(ctx, n_rand, &mut j);
    workload::string_families(ctx, &mut j);
    workload::big_operands(ctx, &mut j);
    workload::deep_expressions(ctx, &mut j);
    let n = ctx.tier.of(400_000, 15_000_000);
    workload::random(ctx, &pool, n, ctx.tier.of(4, 6), &mut j);
    text_route(ctx, ctx.tier.of(4_000, 40_000));
}

pub fn cell_floor(m: &Merged) -> (u64, u64) {
    // 22 unary x 10 types + 17 binary x 100 type pairs
    (m.prefix_count("cell:"), 22 * 10 + 17 * 100 + 10 + 20 + 40 + 1 + 10 + 20)
}

fn finish(m: &Merged, tier: Tier) -> Finish {
    let kinds_hit = ALL_KINDS.iter().filter(|k| m.c(&format!("kind:{k}")) > 0).count();
    let (cells_hit, cells_total) = cell_floor(m);
    let mut f = Finish {
        rule: "cases = depth-1 product of every Expr variant over a 190-value boundary pool (exhaustive) + depth-2 arithmetic/date chains over boundary values (exhaustive) + random (non-pool) operands for every operator + string families (all pairs over a two-letter alphabet through contains, every character below U+0250 and every Unicode space through trim / uppercase / lowercase, numeric- and date-looking strings with padding, signs, long digit runs and disturbed fields through the casts) + seeded random typed compositions + texts printed by the harness and parsed by Expr::parse; a case is non-trivial when the reference evaluator predicts an error (type, range, division, cast) or the result is a non-finite float; distinct by hash of (tree, input)".into(),
        exhaustive: false,
        exhaustive_part: "depth-1 product (all 47 node kinds x pool, binary operators x pool^2) and the depth-2 boundary chains are enumerated completely and do not depend on the seed".into(),
        ..Default::default()
    };
    f.floors.push(floor(format!("all 47 Expr variants evaluated ({kinds_hit}/47)"), kinds_hit == 47));
    f.floors.push(floor(format!("operator x operand-type cells hit ({cells_hit}/{cells_total}, floor 95%)"), cells_hit * 100 >= cells_total * 95));
    f.floors.push(floor(format!("range failures predicted by the reference: {}", m.c("outcome:range-failure-expected")), m.c("outcome:range-failure-expected") >= 1000));
    f.floors.push(floor(format!("text-route trees evaluated: {}", m.c("family:text-route")), m.c("family:text-route") >= tier.of(20_000, 200_000)));
    f.extras.insert("cells_hit".into(), json!(cells_hit));
    f.extras.insert("cells_total".into(), json!(cells_total));
    f.extras.insert("kinds_hit".into(), json!(kinds_hit));
    f.extras.insert("families".into(), json!(m.prefix_map("family:")));
    f.extras.insert("outcomes".into(), json!(m.prefix_map("outcome:")));
    f.extras.insert("text_route".into(), json!(m.prefix_map("text-route:")));
    f.assumptions = vec![
        "reference evaluator E2 (harness/rvmon/src/refeval.rs) decides what counts as 'outside the range of its type'; it trusts Rust's checked i128/f64 arithmetic, rust_decimal's checked_* and chrono's checked_* / try_*".into(),
        "harness built with overflow-checks and debug-assertions on (profile verif): a wrapping integer operation in reval traps and is observed as a panic; the thorough tier repeats the run in plain release where it is observed as a wrapped value".into(),
        "process-level aborts (stack overflow) are observed by the driver through the shard's exit status".into(),
    ];
    if tier == Tier::Thorough && crate::core::profile_name() == "verif" {
        crate::fuzzleg::attach(&mut f, "C01", 150);
    }
    f
}
