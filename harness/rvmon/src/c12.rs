//! C12 — evaluation is deterministic, free of side effects and schedule-independent: outcomes do
//! not depend on how the future is polled, on how often user functions suspend, on other
//! evaluations interleaved against the same ruleset, or on earlier evaluations having completed,
//! failed or been dropped midway.

use crate::core::{floor, guard, Ctx, Finish, Merged, Property, Tier};
use crate::evalcommon::*;
use crate::exec::{run_schedule, BoxFut};
use crate::fixture::{build, Fixture};
use crate::instr::{Entry, FaultPlan, FnDesc, Kind};
use crate::refeval::{classify, same, Obs};
use crate::rng::{fnv, Rng};
use reval::expr::{Expr, Index};
use reval::prelude::*;
use serde_json::json;
use std::collections::BTreeMap;

pub const PROP: Property = Property { id: "C12", run, finish, shards: |_| 16, expect_s: |t| t.of(30, 300) };

/// the same function names with *different* behaviour: a second ruleset that must not be confused with the first
fn descs_other(susp: &[usize; 4]) -> Vec<FnDesc> {
    vec![
        FnDesc { name: "s1", cacheable: true, kind: Kind::V, suspend: susp[0] },
        FnDesc { name: "s2", cacheable: false, kind: Kind::Tag, suspend: susp[1] },
        FnDesc { name: "n1", cacheable: true, kind: Kind::N, suspend: susp[2] },
        FnDesc { name: "e1", cacheable: false, kind: Kind::T, suspend: susp[3] },
    ]
}

fn descs(susp: &[usize; 4]) -> Vec<FnDesc> {
    vec![
        FnDesc { name: "s1", cacheable: true, kind: Kind::Tag, suspend: susp[0] },
        FnDesc { name: "s2", cacheable: true, kind: Kind::V, suspend: susp[1] },
        FnDesc { name: "n1", cacheable: false, kind: Kind::Tag, suspend: susp[2] },
        FnDesc { name: "e1", cacheable: true, kind: Kind::E, suspend: susp[3] },
    ]
}

fn gen_rule(rng: &mut Rng) -> Expr {
    let arg = |rng: &mut Rng| match rng.below(5) {
        0 => Expr::value(1),
        1 => Expr::value("x".to_string()),
        2 => Expr::reff("a"),
        3 => Expr::index(Expr::reff("facts"), Index::from("b")),
        _ => Expr::value(2),
    };
    let call = |rng: &mut Rng| {
        let f = *rng.pick(&["s1", "s1", "s2", "n1", "e1"]);
        let a = arg(rng);
        if rng.chance(1, 6) { Expr::func(f, Expr::func("s2", a)) } else { Expr::func(f, a) }
    };
    match rng.below(14) {
        10 => Expr::iif(Expr::value(true), Expr::reff("a"), Expr::value(1)),
        11 => Expr::iif(Expr::eq(Expr::symbol("sym"), Expr::symbol("sym")), Expr::index(Expr::reff("facts"), Index::from("b")), Expr::value(0)),
        12 => Expr::Vec(vec![Expr::value(1), Expr::reff("a"), Expr::symbol("sym")]),
        13 => Expr::iif(Expr::value(false), Expr::value(1), Expr::some(Expr::reff("facts"))),
        8 => Expr::index(Expr::Vec(vec![call(rng), call(rng)]), Index::from(rng.below(3))),
        9 => Expr::iif(Expr::some(call(rng)), Expr::index(call(rng), Index::from(1usize)), Expr::symbol("sym")),
        0 => Expr::Vec(vec![Expr::symbol("sym"), call(rng), Expr::symbol("sym")]),
        1 => call(rng),
        2 => Expr::Vec(vec![call(rng), call(rng)]),
        3 => Expr::Vec(vec![call(rng), call(rng), call(rng)]),
        4 => Expr::iif(Expr::eq(call(rng), call(rng)), call(rng), Expr::value(0)),
        5 => Expr::or(Expr::some(call(rng)), Expr::value(true)),
        6 => match rng.below(6) {
            0 => Expr::add(Expr::reff("a"), Expr::value(1)),
            // strict binary operators over two calls (either of which may fail or suspend): still left to right, one after the other
            1 => Expr::add(call(rng), call(rng)),
            2 => Expr::lt(call(rng), call(rng)),
            3 => Expr::contains(Expr::Vec(vec![call(rng)]), call(rng)),
            4 => Expr::bitwise_and(call(rng), Expr::mult(call(rng), call(rng))),
            _ => Expr::eq(Expr::add(call(rng), call(rng)), call(rng)),
        },
        _ => {
            let mut m = BTreeMap::new();
            m.insert("z".to_string(), call(rng));
            m.insert("a".to_string(), call(rng));
            Expr::Map(m)
        }
    }
}

fn gen_input(rng: &mut Rng) -> Value {
    if rng.chance(1, 12) {
        // a big nested input: 100+ keys next to the ones the rules read
        let mut m = BTreeMap::new();
        for i in 0..(70 + rng.below(200)) {
            m.insert(format!("key{i:03}"), if i % 9 == 0 { Value::Vec((0..i as i128 % 20).map(Value::Int).collect()) } else { Value::Int(i as i128) });
        }
        m.insert("a".to_string(), Value::Int(rng.below(3) as i128));
        m.insert("b".to_string(), Value::Int(rng.below(2) as i128));
        m.insert("nested".to_string(), Value::Map(m.clone()));
        return Value::Map(m);
    }
    match rng.below(6) {
        0 => Value::None,
        1 => Value::Int(3),
        _ => {
            let mut m = BTreeMap::new();
            m.insert("a".to_string(), match rng.below(8) {
                0 | 1 | 2 => Value::Int(rng.below(3) as i128),
                3 | 4 => Value::String("x".into()),
                5 => Value::Decimal(rust_decimal::Decimal::new(15, 1)),
                6 => Value::DateTime(chrono::DateTime::from_timestamp(1_700_000_000 + rng.below(3) as i64, 5).unwrap()),
                _ => Value::Duration(chrono::TimeDelta::milliseconds(1_500)),
            });
            if rng.chance(2, 3) {
                m.insert("b".to_string(), Value::Int(rng.below(2) as i128));
            }
            Value::Map(m)
        }
    }
}

type Rendered = Vec<(String, String)>;

fn render(outs: reval::Result<Vec<reval::ruleset::Outcome<'_>>>, kept: &[Rule]) -> Result<Rendered, String> {
    match outs {
        Ok(v) => {
            let mut r = vec![];
            for (i, o) in v.into_iter().enumerate() {
                if kept.get(i) != Some(o.rule) {
                    return Err(format!("outcome #{i} does not carry the rule that was added (rule changed?)"));
                }
                let obs = match o.value {
                    Ok(v) => Obs::Val(v),
                    Err(e) => classify(&e),
                };
                r.push((o.rule.name().to_string(), show_obs(&obs)));
            }
            Ok(r)
        }
        Err(e) => Err(format!("evaluate_value failed as a whole: {e}")),
    }
}

struct World {
    fx: Fixture,
    kept: Vec<Rule>,
}

fn world_with(rules: &[(String, Expr)], d: Vec<FnDesc>, sym: i128) -> World {
    let mut symbols = BTreeMap::new();
    symbols.insert("sym".to_string(), Value::Int(sym));
    let fx = build(&d, &symbols, rules, FaultPlan::default());
    let kept = rules.iter().map(|(n, e)| Rule::new(n.clone(), BTreeMap::new(), e.clone())).collect();
    World { fx, kept }
}

fn world(rules: &[(String, Expr)], susp: &[usize; 4]) -> World {
    world_with(rules, descs(susp), 1)
}

fn log_of(entries: &[Entry], eval: u64) -> Vec<String> {
    entries.iter().filter(|e| e.eval == eval).map(|e| format!("{}({:?})", e.func, e.arg)).collect()
}

/// Drive `n` evaluations of one ruleset under a schedule; returns per-evaluation outcomes (None =
/// dropped), per-evaluation logs, and the realised schedule.
fn drive(w: &World, inputs: &[&Value], schedule: &[usize], drop_after: &[Option<usize>]) -> Result<(Vec<Option<Result<Rendered, String>>>, Vec<Vec<String>>, Vec<usize>), String> {
    w.fx.log.take();
    let ids: Vec<u64> = (0..inputs.len() as u64).map(|i| 100 + i).collect();
    let kept = &w.kept;
    let rs = &w.fx.ruleset;
    let r = guard(|| {
        let futs: Vec<BoxFut<'_, Result<Rendered, String>>> = inputs
            .iter()
            .map(|facts| {
                let facts: &Value = facts;
                let f: BoxFut<'_, Result<Rendered, String>> = Box::pin(async move { render(rs.evaluate_value(facts).await, kept) });
                f
            })
            .collect();
        run_schedule(futs, &ids, schedule, drop_after)
    });
    let entries = w.fx.log.take();
    match r {
        Ok((outs, realised)) => {
            let logs = ids.iter().map(|id| log_of(&entries, *id)).collect();
            Ok((outs, logs, realised))
        }
        Err(p) => Err(format!("panic: {p}")),
    }
}

/// one evaluation of each of two different rulesets under a schedule over {0, 1}
fn drive_two(wa: &World, in_a: &Value, wb: &World, in_b: &Value, schedule: &[usize]) -> Result<(Result<Rendered, String>, Vec<String>, Result<Rendered, String>, Vec<String>), String> {
    wa.fx.log.take();
    wb.fx.log.take();
    let ids = [100u64, 101u64];
    let r = guard(|| {
        let (ka, kb) = (&wa.kept, &wb.kept);
        let (ra, rb) = (&wa.fx.ruleset, &wb.fx.ruleset);
        let fa: BoxFut<'_, Result<Rendered, String>> = Box::pin(async move { render(ra.evaluate_value(in_a).await, ka) });
        let fb: BoxFut<'_, Result<Rendered, String>> = Box::pin(async move { render(rb.evaluate_value(in_b).await, kb) });
        run_schedule(vec![fa, fb], &ids, schedule, &[None, None])
    });
    let (ea, eb) = (wa.fx.log.take(), wb.fx.log.take());
    match r {
        Ok((mut outs, _)) => {
            let ob = outs.pop().unwrap().unwrap();
            let oa = outs.pop().unwrap().unwrap();
            Ok((oa, log_of(&ea, 100), ob, log_of(&eb, 101)))
        }
        Err(p) => Err(format!("panic: {p}")),
    }
}

/// Ground truth that does not come from the implementation: the reference evaluator's prediction for
/// this ruleset alone. A process-wide memo that is *consistently* wrong (e.g. a symbol table shared by
/// all rulesets) is invisible to a self-referential baseline, but not to this.
fn agrees_with_model(w: &World, facts: &Value) -> Result<(), String> {
    let pred = w.fx.predict(facts);
    if pred.wide {
        return Ok(());
    }
    let res = w.fx.eval(facts, 77)?;
    for ((name, exp), (_, obs)) in pred.outcomes.iter().zip(res.outcomes.iter()) {
        if let Some(mis) = crate::refeval::compare(exp, obs) {
            return Err(format!("rule {name}: {mis}: observed {} expected {}", show_obs(obs), show_exp(exp)));
        }
    }
    Ok(())
}

struct Baseline {
    outcomes: Result<Rendered, String>,
    log: Vec<String>,
    polls: usize,
}

fn baseline(w: &World, facts: &Value) -> Result<Baseline, String> {
    let (outs, logs, realised) = drive(w, &[facts], &[], &[None])?;
    Ok(Baseline { outcomes: outs.into_iter().next().unwrap().unwrap(), log: logs.into_iter().next().unwrap(), polls: realised.len() })
}

fn violation(ctx: &mut Ctx, class: &str, what: String, rules: &[(String, Expr)], extra: serde_json::Value) {
    ctx.violation(format!("C12 {class}"), what, json!({"rules": rules.iter().map(|(n, e)| format!("{n}: {}", show_expr(e))).collect::<Vec<_>>(), "detail": extra}));
}

/// all interleavings of two poll sequences of lengths p0 and p1 (as schedules over {0,1})
fn interleavings(p0: usize, p1: usize, cap: usize, rng: &mut Rng) -> Vec<Vec<usize>> {
    let mut out = vec![];
    fn rec(a: usize, b: usize, cur: &mut Vec<usize>, out: &mut Vec<Vec<usize>>) {
        if a == 0 && b == 0 {
            out.push(cur.clone());
            return;
        }
        if a > 0 {
            cur.push(0);
            rec(a - 1, b, cur, out);
            cur.pop();
        }
        if b > 0 {
            cur.push(1);
            rec(a, b - 1, cur, out);
            cur.pop();
        }
    }
    // C(p0+p1, p0) grows fast: enumerate when small, sample otherwise
    let total = {
        let (mut num, mut den) = (1u128, 1u128);
        for i in 0..p0.min(p1) {
            num *= (p0 + p1 - i) as u128;
            den *= (i + 1) as u128;
        }
        num / den
    };
    if total <= cap as u128 {
        rec(p0, p1, &mut vec![], &mut out);
    } else {
        for _ in 0..cap {
            let mut s: Vec<usize> = std::iter::repeat(0).take(p0).chain(std::iter::repeat(1).take(p1)).collect();
            rng.shuffle(&mut s);
            out.push(s);
        }
    }
    out
}

fn one_world(ctx: &mut Ctx, rng: &mut Rng) {
    let n_rules = 1 + rng.below(4);
    let rules: Vec<(String, Expr)> = (0..n_rules).map(|i| (format!("r{i}"), gen_rule(rng))).collect();
    let in_a = gen_input(rng);
    let in_b = if rng.chance(1, 2) { in_a.clone() } else { gen_input(rng) };
    let in_a_copy = in_a.clone();
    ctx.begin(|| format!("world\t{:?} on {in_a:?} / {in_b:?}", rules.iter().map(|(_, e)| show_expr(e)).collect::<Vec<_>>()));

    // reference behaviour: no suspension at all, driven straight through
    let w0 = world(&rules, &[0, 0, 0, 0]);
    let (ba, bb) = match (baseline(&w0, &in_a), baseline(&w0, &in_b)) {
        (Ok(a), Ok(b)) => (a, b),
        (Err(p), _) | (_, Err(p)) => return violation(ctx, "evaluation-panicked", p, &rules, json!(null)),
    };
    ctx.count();
    // (a) repeat x3 on the same ruleset
    for k in 0..3 {
        ctx.count();
        match baseline(&w0, &in_a) {
            Ok(b) if b.outcomes == ba.outcomes && b.log == ba.log => ctx.hit("repeat:agrees"),
            Ok(b) => return violation(ctx, "repeated-evaluation-differs", format!("evaluation #{} of the same ruleset on the same input differs from the first", k + 2), &rules, json!({"first": format!("{:?}", ba.outcomes), "later": format!("{:?}", b.outcomes), "first_log": ba.log, "later_log": b.log})),
            Err(p) => return violation(ctx, "evaluation-panicked", p, &rules, json!(null)),
        }
    }
    if in_a != in_a_copy {
        return violation(ctx, "input-mutated", "the input value changed".into(), &rules, json!(null));
    }
    // (a') the same storage holding different inputs one after the other, and equal inputs at different addresses
    {
        let mut slot: Box<Value> = Box::new(in_a.clone());
        for (k, (input, want)) in [(&in_a, &ba), (&in_b, &bb), (&in_a, &ba), (&in_b, &bb)].into_iter().enumerate() {
            *slot = input.clone();
            ctx.count();
            match baseline(&w0, &slot) {
                Ok(b) if b.outcomes == want.outcomes && b.log == want.log => ctx.hit("repeat:same-address-different-input"),
                Ok(b) => return violation(ctx, "outcome-depends-on-where-the-input-is-stored", format!("evaluation #{} through one storage location that holds a different input each time differs from evaluating that input alone", k + 1), &rules, json!({"got": format!("{:?}", b.outcomes), "expected": format!("{:?}", want.outcomes)})),
                Err(p) => return violation(ctx, "evaluation-panicked", p, &rules, json!(null)),
            }
        }
        let copies: Vec<Value> = (0..3).map(|_| in_a.clone()).collect();
        for c in &copies {
            ctx.count();
            match baseline(&w0, c) {
                Ok(b) if b.outcomes == ba.outcomes && b.log == ba.log => ctx.hit("repeat:equal-input-at-another-address"),
                Ok(b) => return violation(ctx, "outcome-depends-on-where-the-input-is-stored", "an equal input at another address evaluates differently".into(), &rules, json!({"got": format!("{:?}", b.outcomes), "expected": format!("{:?}", ba.outcomes)})),
                Err(p) => return violation(ctx, "evaluation-panicked", p, &rules, json!(null)),
            }
        }
    }

    // (b) every function suspending 0..k times
    let kmax = 2;
    let combos: Vec<[usize; 4]> = {
        let mut v = vec![];
        for a in 0..=kmax {
            for b in 0..=kmax {
                for c in 0..=kmax {
                    for d in 0..=kmax {
                        v.push([a, b, c, d]);
                    }
                }
            }
        }
        v
    };
    let pick_combos: Vec<[usize; 4]> = if ctx.tier == Tier::Thorough { combos.clone() } else { (0..12).map(|_| combos[rng.below(combos.len())]).collect() };
    for susp in &pick_combos {
        let w = world(&rules, susp);
        ctx.count();
        match baseline(&w, &in_a) {
            Ok(b) => {
                ctx.hit(&format!("suspensions:polls{}", b.polls.min(12)));
                ctx.nontrivial(fnv(format!("{rules:?}|{in_a:?}|susp{susp:?}").as_bytes()));
                if b.outcomes != ba.outcomes || b.log != ba.log {
                    return violation(ctx, "outcome-depends-on-suspension-count", format!("with suspension counts {susp:?} the outcomes / invocations differ from the unsuspended run"), &rules, json!({"unsuspended": format!("{:?}", ba.outcomes), "suspended": format!("{:?}", b.outcomes), "log": ba.log, "log_suspended": b.log}));
                }
            }
            Err(p) => return violation(ctx, "evaluation-panicked", p, &rules, json!({"suspensions": susp})),
        }
    }

    // (c) interleavings of two evaluations at suspension points, (d) cancellation at every point
    let susp = [1 + rng.below(2), rng.below(2), 1, rng.below(2)];
    let w = world(&rules, &susp);
    let (pa, pb) = match (baseline(&w, &in_a), baseline(&w, &in_b)) {
        (Ok(a), Ok(b)) => (a.polls, b.polls),
        _ => return violation(ctx, "evaluation-panicked", "baseline under suspension".into(), &rules, json!(null)),
    };
    let cap = ctx.tier.of(40, 924);
    for sched in interleavings(pa, pb, cap, rng) {
        ctx.count();
        match drive(&w, &[&in_a, &in_b], &sched, &[None, None]) {
            Ok((outs, logs, realised)) => {
                let switches = realised.windows(2).filter(|p| p[0] != p[1]).count();
                ctx.hit(&format!("interleave:switches{}", switches.min(10)));
                if switches > 0 {
                    ctx.nontrivial(fnv(format!("{rules:?}|{in_a:?}|{in_b:?}|{realised:?}").as_bytes()));
                    ctx.hit("interleavings-with-a-switch");
                }
                let oa = outs[0].clone().unwrap();
                let ob = outs[1].clone().unwrap();
                if oa != ba.outcomes || ob != bb.outcomes || logs[0] != ba.log || logs[1] != bb.log {
                    return violation(ctx, "outcome-depends-on-interleaving", "two evaluations of one ruleset interleaved at suspension points do not behave like the two run alone".into(), &rules, json!({"schedule": realised, "inputs": [format!("{in_a:?}"), format!("{in_b:?}")], "alone": [format!("{:?}", ba.outcomes), format!("{:?}", bb.outcomes)], "interleaved": [format!("{oa:?}"), format!("{ob:?}")], "logs_alone": [ba.log.clone(), bb.log.clone()], "logs_interleaved": logs}));
                }
            }
            Err(p) => return violation(ctx, "evaluation-panicked", p, &rules, json!({"schedule": sched})),
        }
    }
    // two DIFFERENT rulesets (same function and symbol names, different behaviour and rules) interleaved:
    // nothing may leak from one ruleset into the other
    {
        let n2 = 1 + rng.below(3);
        let rules2: Vec<(String, Expr)> = (0..n2).map(|i| (format!("r{i}"), gen_rule(rng))).collect();
        let w2 = world_with(&rules2, descs_other(&susp), 2);
        for (which, ww, input) in [("first", &w, &in_a), ("second", &w2, &in_b), ("first again", &w, &in_b)] {
            ctx.count();
            if let Err(why) = agrees_with_model(ww, input) {
                return violation(ctx, "outcome-depends-on-another-ruleset", format!("the {which} of two rulesets that share function and symbol names does not evaluate like it would alone: {why}"), &rules, json!({"other_rules": rules2.iter().map(|(_, e)| show_expr(e)).collect::<Vec<_>>()}));
            }
            ctx.hit("two-rulesets:agrees-with-model");
        }
        if let Ok(b2) = baseline(&w2, &in_b) {
            for _ in 0..ctx.tier.of(4, 40) {
                let mut s: Vec<usize> = std::iter::repeat(0).take(pa).chain(std::iter::repeat(1).take(b2.polls)).collect();
                rng.shuffle(&mut s);
                ctx.count();
                match drive_two(&w, &in_a, &w2, &in_b, &s) {
                    Ok((oa, la, ob, lb)) => {
                        ctx.hit("interleave:two-different-rulesets");
                        if oa != ba.outcomes || la != ba.log || ob != b2.outcomes || lb != b2.log {
                            return violation(ctx, "outcome-depends-on-another-ruleset", "evaluations of two different rulesets interleaved do not behave like each run alone".into(), &rules, json!({"schedule": s, "other_rules": rules2.iter().map(|(_, e)| show_expr(e)).collect::<Vec<_>>(), "alone": [format!("{:?}", ba.outcomes), format!("{:?}", b2.outcomes)], "interleaved": [format!("{oa:?}"), format!("{ob:?}")]}));
                        }
                    }
                    Err(p) => return violation(ctx, "evaluation-panicked", p, &rules, json!(null)),
                }
            }
        }
    }
    // three evaluations, sampled schedules
    for _ in 0..ctx.tier.of(3, 30) {
        let mut s: Vec<usize> = std::iter::repeat(0).take(pa).chain(std::iter::repeat(1).take(pb)).chain(std::iter::repeat(2).take(pa)).collect();
        rng.shuffle(&mut s);
        ctx.count();
        match drive(&w, &[&in_a, &in_b, &in_a], &s, &[None, None, None]) {
            Ok((outs, logs, _)) => {
                ctx.hit("interleave:three-evaluations");
                // and four overlapping evaluations (two per input), round-robin after a random prefix
                if pa + pb <= 24 {
                    let mut s4: Vec<usize> = (0..4).flat_map(|i| std::iter::repeat(i).take(if i % 2 == 0 { pa } else { pb })).collect();
                    rng.shuffle(&mut s4);
                    if let Ok((o4, l4, _)) = drive(&w, &[&in_a, &in_b, &in_a, &in_b], &s4, &[None, None, None, None]) {
                        ctx.count();
                        ctx.hit("interleave:four-evaluations");
                        for i in 0..4 {
                            let (wo, wl) = if i % 2 == 0 { (&ba.outcomes, &ba.log) } else { (&bb.outcomes, &bb.log) };
                            if o4[i].as_ref() != Some(wo) || &l4[i] != wl {
                                return violation(ctx, "outcome-depends-on-interleaving", "four interleaved evaluations".into(), &rules, json!({"schedule": s4}));
                            }
                        }
                    }
                }
                if outs[0].clone().unwrap() != ba.outcomes || outs[2].clone().unwrap() != ba.outcomes || outs[1].clone().unwrap() != bb.outcomes || logs[0] != ba.log || logs[2] != ba.log {
                    return violation(ctx, "outcome-depends-on-interleaving", "three interleaved evaluations".into(), &rules, json!({"schedule": s}));
                }
            }
            Err(p) => return violation(ctx, "evaluation-panicked", p, &rules, json!(null)),
        }
    }
    // (d) abandon an evaluation after j polls (every j), then run a fresh one
    for j in 0..=pa {
        ctx.count();
        // evaluation 0 is dropped after j polls; evaluation 1 is the fresh one and is only polled afterwards
        let sched: Vec<usize> = std::iter::repeat(0).take(j).collect();
        match drive(&w, &[&in_a, &in_a], &sched, &[Some(j), None]) {
            Ok((outs, logs, _)) => {
                let completed = outs[0].is_some();
                ctx.hit(&format!("cancel:after-polls{}", j.min(12)));
                if !completed {
                    ctx.hit("cancel:dropped-midway");
                    ctx.nontrivial(fnv(format!("{rules:?}|{in_a:?}|cancel{j}").as_bytes()));
                }
                let fresh = outs[1].clone().unwrap();
                if fresh != ba.outcomes || logs[1] != ba.log {
                    return violation(ctx, "outcome-depends-on-an-abandoned-evaluation", format!("an evaluation was dropped after {j} polls; the next evaluation of the ruleset differs from a first evaluation"), &rules, json!({"fresh": format!("{fresh:?}"), "expected": format!("{:?}", ba.outcomes), "fresh_log": logs[1], "expected_log": ba.log, "dropped_log": logs[0]}));
                }
                // the dropped evaluation's own log must be a prefix of the full log
                if !ba.log.starts_with(&logs[0]) {
                    return violation(ctx, "abandoned-evaluation-ran-out-of-order", "invocations of a dropped evaluation are not a prefix of the complete run".into(), &rules, json!({"dropped_log": logs[0], "full_log": ba.log}));
                }
            }
            Err(p) => return violation(ctx, "evaluation-panicked", p, &rules, json!({"drop_after": j})),
        }
    }
    // (d') long tail after a drop: one evaluation is abandoned midway, then many fresh evaluations follow
    // (a pooled / ring-buffered resource would come round again)
    if rng.chance(1, ctx.tier.of(12, 4)) && pa >= 2 {
        let j = 1 + rng.below(pa - 1);
        let sched: Vec<usize> = std::iter::repeat(0).take(j).collect();
        let _ = drive(&w, &[&in_a, &in_b], &sched, &[Some(j), None]);
        for k in 0..300 {
            ctx.count();
            let (input, want) = if k % 2 == 0 { (&in_b, &bb) } else { (&in_a, &ba) };
            match baseline(&w, input) {
                Ok(b) if b.outcomes == want.outcomes && b.log == want.log => {}
                Ok(b) => return violation(ctx, "outcome-depends-on-an-abandoned-evaluation", format!("evaluation #{} after an evaluation dropped at poll {j} differs from a first evaluation", k + 1), &rules, json!({"got": format!("{:?}", b.outcomes), "expected": format!("{:?}", want.outcomes), "log": b.log, "expected_log": want.log})),
                Err(p) => return violation(ctx, "evaluation-panicked", p, &rules, json!(null)),
            }
        }
        ctx.hit("cancel:long-tail-after-drop");
    }
    // (e) after an evaluation that failed as a rule (already part of the rules: e1) — covered by repeats;
    // finally the ruleset's rules are still the ones that were added
    if in_a != in_a_copy {
        return violation(ctx, "input-mutated", "the input value changed".into(), &rules, json!(null));
    }
    let _ = same;
    ctx.sample("world", || json!({"rules": rules.iter().map(|(_, e)| show_expr(e)).collect::<Vec<_>>(), "input": format!("{in_a:?}"), "outcomes": format!("{:?}", ba.outcomes), "polls_with_suspension": pa}));
}

/// A ruleset whose first rule is one flat list of `n` items (literals, references, symbols and a few calls of suspending
/// functions), i.e. an evaluation that visits far more nodes than any small world: straight run, suspended run,
/// two interleaved evaluations and a drop midway must all behave like the straight run.
fn large_world(ctx: &mut Ctx, rng: &mut Rng, n: usize) {
    let every = (n / 23).max(1);
    let items: Vec<Expr> = (0..n)
        .map(|i| {
            if i % every == 3 {
                Expr::func(*rng.pick(&["s1", "s2", "n1"]), Expr::value((i % 5) as i128))
            } else {
                match i % 4 {
                    0 => Expr::value(i as i128),
                    1 => Expr::symbol("sym"),
                    2 => Expr::value(i % 3 == 0),
                    _ => Expr::value("s".to_string()),
                }
            }
        })
        .collect();
    let mut entries = BTreeMap::new();
    for i in 0..n / 4 {
        entries.insert(format!("k{i:06}"), if i % 997 == 5 { Expr::func("s1", Expr::value(1)) } else { Expr::value(i as i128) });
    }
    let rules: Vec<(String, Expr)> = vec![("r0".to_string(), Expr::Vec(items)), ("r1".to_string(), Expr::func("s1", Expr::value(1))), ("r2".to_string(), Expr::Map(entries)), ("r3".to_string(), Expr::add(Expr::func("n1", Expr::value(2)), Expr::value(1)))];
    let input = Value::Map([("a".to_string(), Value::Int(1))].into_iter().collect());
    ctx.begin(|| format!("large-world\t{n} items"));
    let w0 = world(&rules, &[0, 0, 0, 0]);
    let small: Vec<(String, Expr)> = vec![("r0".into(), Expr::value(format!("flat list of {n} items, map of {} entries", n / 4)))];
    let base = match baseline(&w0, &input) {
        Ok(b) => b,
        Err(p) => return violation(ctx, "evaluation-panicked", p, &small, json!(null)),
    };
    // the straight run itself must be what the reference evaluator predicts (a baseline that is wrong in the same way under
    // every schedule would otherwise go unnoticed)
    if let Err(why) = agrees_with_model(&w0, &input) {
        return violation(ctx, "large-evaluation-differs-from-the-reference-evaluator", why, &small, json!(null));
    }
    ctx.count();
    ctx.hit(&format!("large:items{}", n));
    ctx.nontrivial(fnv(format!("large|{n}").as_bytes()));
    let w = world(&rules, &[1, 2, 1, 0]);
    match baseline(&w, &input) {
        Ok(b) if b.outcomes == base.outcomes && b.log == base.log => {
            ctx.hit("large:suspended-agrees");
            let polls = b.polls;
            // two evaluations interleaved at random, and one dropped midway followed by a fresh one
            let mut s: Vec<usize> = std::iter::repeat(0).take(polls).chain(std::iter::repeat(1).take(polls)).collect();
            rng.shuffle(&mut s);
            ctx.count();
            match drive(&w, &[&input, &input], &s, &[None, None]) {
                Ok((outs, logs, _)) => {
                    if outs[0].as_ref() != Some(&base.outcomes) || outs[1].as_ref() != Some(&base.outcomes) || logs[0] != base.log || logs[1] != base.log {
                        return violation(ctx, "outcome-depends-on-interleaving", format!("two interleaved evaluations of a ruleset with a {n}-item rule"), &small, json!({"schedule": s}));
                    }
                    ctx.hit("large:interleaved-agrees");
                }
                Err(p) => return violation(ctx, "evaluation-panicked", p, &small, json!(null)),
            }
            let j = 1 + rng.below(polls.max(2) - 1);
            let sched: Vec<usize> = std::iter::repeat(0).take(j).collect();
            ctx.count();
            match drive(&w, &[&input, &input], &sched, &[Some(j), None]) {
                Ok((outs, logs, _)) => {
                    if outs[1].as_ref() != Some(&base.outcomes) || logs[1] != base.log {
                        return violation(ctx, "outcome-depends-on-an-abandoned-evaluation", format!("a {n}-item evaluation was dropped after {j} polls; the next one differs"), &small, json!(null));
                    }
                    ctx.hit("large:fresh-after-drop-agrees");
                }
                Err(p) => return violation(ctx, "evaluation-panicked", p, &small, json!(null)),
            }
        }
        Ok(b) => return violation(ctx, "outcome-depends-on-suspension-count", format!("a ruleset with a {n}-item rule evaluates differently when its functions suspend"), &small, json!({"unsuspended_log": base.log, "suspended_log": b.log, "same_outcomes": b.outcomes == base.outcomes})),
        Err(p) => return violation(ctx, "evaluation-panicked", p, &small, json!(null)),
    }
    lost_wakeups(ctx, &small);
}

/// The evaluation future must arrange its own wake-up whenever it returns Pending (every suspension the harness creates calls the waker
/// before returning Pending, so a Pending without a wake comes from the evaluator itself): otherwise the outcome — whether there is one
/// at all — depends on whether the executor polls spuriously.
fn lost_wakeups(ctx: &mut Ctx, rules: &[(String, Expr)]) {
    let lost = crate::exec::take_lost_wakeups();
    ctx.hit("wake-monitor:checked");
    if lost > 0 {
        violation(ctx, "pending-without-a-wake-up", format!("{lost} poll(s) of an evaluation returned Pending although nothing had called the waker: an executor that polls on wake-up never completes this evaluation"), rules, json!({"polls_without_wake": lost}));
    }
}

/// An executor that is slow in wall-clock terms: the evaluation is suspended in a user function and polled again only after `pause`.
/// The outcome must be the one a quick executor gets (it must not depend on how much time passes between two polls).
fn slow_executor(ctx: &mut Ctx, pause: std::time::Duration) {
    let rules: Vec<(String, Expr)> = vec![
        ("r0".to_string(), Expr::Vec(vec![Expr::func("s1", Expr::reff("a")), Expr::func("n1", Expr::value(2)), Expr::func("s1", Expr::reff("a"))])),
        ("r1".to_string(), Expr::add(Expr::func("s2", Expr::value(1)), Expr::value(1))),
    ];
    let input = Value::Map([("a".to_string(), Value::Int(1))].into_iter().collect());
    let w = world(&rules, &[1, 1, 1, 0]);
    let quick = match baseline(&w, &input) {
        Ok(b) => b,
        Err(p) => return violation(ctx, "evaluation-panicked", p, &rules, json!(null)),
    };
    ctx.count();
    w.fx.log.take();
    let kept = &w.kept;
    let rs = &w.fx.ruleset;
    let slow = guard(|| {
        let waker = crate::exec::noop_waker();
        let mut cx = std::task::Context::from_waker(&waker);
        let mut fut: BoxFut<'_, Result<Rendered, String>> = Box::pin(async { render(rs.evaluate_value(&input).await, kept) });
        crate::exec::CURRENT_EVAL.with(|c| c.set(100));
        let mut polls = 0;
        loop {
            polls += 1;
            if let std::task::Poll::Ready(r) = fut.as_mut().poll(&mut cx) {
                return (r, polls);
            }
            // one long pause after the first suspension, short ones afterwards
            std::thread::sleep(if polls == 1 { pause } else { std::time::Duration::from_millis(20) });
        }
    });
    let log = log_of(&w.fx.log.take(), 100);
    ctx.hit(&format!("slow-executor:paused-{}s", pause.as_secs()));
    match slow {
        Ok((r, _)) if r == quick.outcomes && log == quick.log => ctx.hit("slow-executor:agrees"),
        Ok((r, polls)) => violation(ctx, "outcome-depends-on-the-time-between-polls", format!("an evaluation that was polled again only after {} s gives a different outcome than one polled at once", pause.as_secs()), &rules, json!({"quick": format!("{:?}", quick.outcomes), "slow": format!("{r:?}"), "polls": polls})),
        Err(p) => violation(ctx, "evaluation-panicked", p, &rules, json!({"slow_executor": true})),
    }
}

// ---- the process environment and the clocks, seen through an LD_PRELOAD shim ----------------------------------------------

/// Child process of the C12 driver, started with LD_PRELOAD = harness/shim (if the shim is not loaded it says so and the leg is
/// inconclusive). It evaluates one ruleset (cacheable and non-cacheable suspending functions, repeated calls) three times:
/// plainly; with both clocks moved ten years forward between two polls; and again plainly. It prints the rendered outcomes and
/// invocation logs; the shim logs every environment variable that is asked for while an evaluation is running.
pub fn env_probe() -> i32 {
    use std::ffi::c_void;
    extern "C" {
        fn dlsym(handle: *mut c_void, symbol: *const std::ffi::c_char) -> *mut c_void;
    }
    let sym = |name: &'static [u8]| unsafe { dlsym(std::ptr::null_mut(), name.as_ptr() as *const std::ffi::c_char) };
    let (advance, mark) = (sym(b"verif_shim_advance\0"), sym(b"verif_shim_mark\0"));
    if advance.is_null() || mark.is_null() {
        println!("ENVPROBE shim-not-loaded");
        return 3;
    }
    let advance: extern "C" fn(i64) = unsafe { std::mem::transmute(advance) };
    let mark: extern "C" fn(i32) = unsafe { std::mem::transmute(mark) };
    crate::core::install_panic_hook();
    let rules: Vec<(String, Expr)> = vec![
        ("r0".to_string(), Expr::Vec(vec![Expr::func("s1", Expr::reff("a")), Expr::func("n1", Expr::value(2)), Expr::func("s1", Expr::reff("a")), Expr::func("s2", Expr::value(1))])),
        ("r1".to_string(), Expr::add(Expr::func("s2", Expr::value(1)), Expr::value(1))),
        ("r2".to_string(), Expr::Vec(vec![Expr::year(Expr::datetime(Expr::value("2020-05-05T05:05:05Z".to_string()))), Expr::int(Expr::value("42".to_string())), Expr::uppercase(Expr::value("straße".to_string()))])),
        ("r3".to_string(), Expr::eq(Expr::func("s1", Expr::value(7)), Expr::func("s1", Expr::value(7)))),
    ];
    let input = Value::Map([("a".to_string(), Value::Int(1))].into_iter().collect());
    let w = world(&rules, &[1, 1, 1, 0]);
    let one = |warp: bool| -> String {
        w.fx.log.take();
        let kept = &w.kept;
        let rs = &w.fx.ruleset;
        let r = guard(|| {
            let waker = crate::exec::noop_waker();
            let mut cx = std::task::Context::from_waker(&waker);
            let mut fut: BoxFut<'_, Result<Rendered, String>> = Box::pin(async { render(rs.evaluate_value(&input).await, kept) });
            crate::exec::CURRENT_EVAL.with(|c| c.set(100));
            mark(1);
            let mut polls = 0;
            let out = loop {
                polls += 1;
                if let std::task::Poll::Ready(r) = fut.as_mut().poll(&mut cx) {
                    break r;
                }
                if warp && polls == 1 {
                    advance(10 * 365 * 86_400);
                }
            };
            mark(0);
            out
        });
        let log = log_of(&w.fx.log.take(), 100);
        format!("{r:?} | log {log:?}")
    };
    println!("ENVPROBE base {}", one(false));
    println!("ENVPROBE warp {}", one(true));
    println!("ENVPROBE again {}", one(false));
    println!("ENVPROBE done");
    0
}

/// Driver side: compile the shim, run the probe under it, compare, and re-run it with every environment variable the code asked for
/// set to a few values.
fn environment_and_clock_leg(f: &mut Finish) {
    let harness = crate::core::verif_dir().join("harness");
    let target = std::env::var("CARGO_TARGET_DIR").map(std::path::PathBuf::from).unwrap_or_else(|_| harness.join("target"));
    let dir = target.join("shim");
    std::fs::create_dir_all(&dir).ok();
    let so = dir.join("libverifshim.so");
    let built = std::process::Command::new("cc").args(["-shared", "-fPIC", "-O1", "-o"]).arg(&so).arg(harness.join("shim/shim.c")).arg("-ldl").output();
    if !matches!(&built, Ok(o) if o.status.success()) {
        f.floors.push(floor("the LD_PRELOAD shim for the environment / clock leg does not build (cc missing?)".to_string(), false));
        return;
    }
    let Ok(exe) = std::env::current_exe() else { return };
    let log = dir.join(format!("getenv-{}.log", std::process::id()));
    let run = |extra: Option<(&str, &str)>, log: Option<&std::path::Path>| -> Option<Vec<String>> {
        let mut c = std::process::Command::new(&exe);
        c.arg("envprobe").env("LD_PRELOAD", &so);
        if let Some(l) = log {
            let _ = std::fs::remove_file(l);
            c.env("VERIF_SHIM_LOG", l);
        }
        if let Some((k, v)) = extra {
            c.env(k, v);
        }
        let o = c.output().ok()?;
        let out = String::from_utf8_lossy(&o.stdout).to_string();
        if !out.contains("ENVPROBE done") {
            return None;
        }
        Some(out.lines().filter_map(|l| l.strip_prefix("ENVPROBE ")).map(|s| s.to_string()).collect())
    };
    let Some(lines) = run(None, Some(&log)) else {
        f.floors.push(floor("the environment / clock probe did not complete under the shim".to_string(), false));
        return;
    };
    let get = |ls: &[String], k: &str| ls.iter().find_map(|l| l.strip_prefix(k).map(|s| s.trim().to_string())).unwrap_or_default();
    let (base, warp, again) = (get(&lines, "base"), get(&lines, "warp"), get(&lines, "again"));
    let mut asked: Vec<String> = std::fs::read_to_string(&log).unwrap_or_default().lines().map(|s| s.to_string()).collect();
    let _ = std::fs::remove_file(&log);
    asked.sort();
    asked.dedup();
    f.extras.insert("environment_and_clock_leg".into(), json!({"environment_variables_asked_for_during_evaluation": asked, "clocks_moved_forward_by": "10 years between the first and the second poll", "baseline": clip(base.clone(), 300)}));
    if warp != base || again != base {
        f.violations.push(crate::core::Violation { sig: "C12 outcome-depends-on-the-time-between-polls (clocks moved forward)".into(), what: "an evaluation during which the clocks were moved ten years forward between two polls gives a different outcome / invocation log".into(), case: json!({"plain": clip(base.clone(), 600), "clocks_moved": clip(warp, 600), "plain_again": clip(again, 600), "how_to_replay": "rvmon envprobe under LD_PRELOAD=harness/target/shim/libverifshim.so"}), count: 1 });
    }
    // every variable the code under test asked for: does its value change the outcome?
    for name in asked.iter().filter(|n| !n.starts_with("VERIF_") && !n.starts_with("RVMON_") && !n.starts_with("LD_")) {
        for value in ["1", "0", "true", "off", ""] {
            match run(Some((name, value)), None) {
                Some(ls) if get(&ls, "base") == base && get(&ls, "again") == base => {}
                Some(ls) => {
                    f.violations.push(crate::core::Violation { sig: "C12 outcome-depends-on-an-environment-variable".into(), what: format!("with {name}={value:?} in the environment the same evaluation gives a different outcome / invocation log"), case: json!({"variable": name, "value": value, "without": clip(base.clone(), 600), "with": clip(get(&ls, "base"), 600)}), count: 1 });
                    break;
                }
                None => f.floors.push(floor(format!("the environment probe did not complete with {name}={value:?}"), false)),
            }
        }
    }
    f.floors.push(floor("environment / clock leg ran under the LD_PRELOAD shim".to_string(), true));
}

fn run(ctx: &mut Ctx) {
    if ctx.shard == 15 {
        // 3 s in the quick tier, 75 s in the thorough tier (a limit of a minute is the smallest a maintainer would plausibly pick)
        slow_executor(ctx, std::time::Duration::from_secs(ctx.tier.of(3, 75)));
    }
    let mut rng = ctx.rng.clone();
    let _ = crate::exec::take_lost_wakeups();
    for n in [9_000usize, 20_000, 70_000, 300_000].into_iter().take(ctx.tier.of(3, 4)) {
        if ctx.mine() {
            large_world(ctx, &mut rng.clone(), n);
        }
    }
    for _ in 0..ctx.tier.of(1, 3) {
        let n = 8_000 + rng.below(60_000);
        large_world(ctx, &mut rng, n);
    }
    let n = ctx.tier.of(2_000, 8_000);
    for _ in 0..n {
        one_world(ctx, &mut rng);
        lost_wakeups(ctx, &[]);
    }
    ctx.rng = rng;
}

fn finish(m: &Merged, tier: Tier) -> Finish {
    let mut f = Finish {
        rule: "for each generated (ruleset with suspending user functions, inputs): a straight unsuspended run defines the expected outcomes and invocation log; then (a) three repeats, (b) the functions suspending 0..2 times in all / sampled combinations, (c) all interleavings (up to the cap, else sampled) of two evaluations at their suspension points and sampled interleavings of three, (d) dropping an evaluation after j polls for every j and then running a fresh one, (e) rulesets with a 9 000 - 300 000-node rule under suspension, interleaving and drop, must reproduce outcomes and per-evaluation logs; a wake monitor flags every poll that returns Pending although the waker was not called (all suspensions created by the harness call it); the input and the rules must compare equal before and after. Non-trivial = schedules with at least one suspension / switch / mid-way drop; distinct by (ruleset, inputs, realised schedule)".into(),
        exhaustive: false,
        exhaustive_part: "per world: every cancellation index 0..polls; all interleavings of the two evaluations when their number is within the cap".into(),
        ..Default::default()
    };
    f.floors.push(floor(format!("distinct (ruleset, schedule) pairs: {}", m.distinct_nontrivial), m.distinct_nontrivial >= tier.of(100_000, 1_000_000)));
    f.floors.push(floor(format!("interleavings with at least one switch: {}", m.c("interleavings-with-a-switch")), m.c("interleavings-with-a-switch") >= tier.of(50_000, 1_000_000)));
    f.floors.push(floor(format!("evaluations dropped midway: {}", m.c("cancel:dropped-midway")), m.c("cancel:dropped-midway") >= tier.of(20_000, 80_000)));
    f.floors.push(floor(format!("large evaluations (>= 8000 nodes) that agreed under suspension / interleaving / drop: {} / {} / {}", m.c("large:suspended-agrees"), m.c("large:interleaved-agrees"), m.c("large:fresh-after-drop-agrees")), m.c("large:fresh-after-drop-agrees") >= 16));
    f.floors.push(floor(format!("wake-monitor checks: {}", m.c("wake-monitor:checked")), m.c("wake-monitor:checked") >= 1_000));
    environment_and_clock_leg(&mut f);
    f.floors.push(floor(format!("slow-executor runs that agreed: {}", m.c("slow-executor:agrees")), m.c("slow-executor:agrees") >= 1));
    f.extras.insert("slow_executor".into(), json!(m.prefix_map("slow-executor:")));
    f.floors.push(floor(format!("cancellation indices seen: {}", m.prefix_count("cancel:after-polls")), m.prefix_count("cancel:after-polls") >= 5));
    f.extras.insert("interleavings_by_switches".into(), json!(m.prefix_map("interleave:")));
    f.extras.insert("cancellation_points_seen".into(), json!(m.prefix_map("cancel:")));
    f.extras.insert("suspension_runs_by_polls".into(), json!(m.prefix_map("suspensions:")));
    f.extras.insert("interleavings_distinct".into(), json!(m.c("interleavings-with-a-switch")));
    f.assumptions = vec!["suspension points are awaits on user functions (the only places reval's cooperative evaluation can yield); the executor is the harness's own poll loop, which attributes invocations to evaluations through a thread-local set before every poll".into()];
    f
}
