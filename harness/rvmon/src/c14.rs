//! C14 — a rule's name, description, metadata and expression are extracted exactly. The generator
//! assembles the rule text from parts it keeps and computes the expected rule from the parts.

use crate::core::{floor, guard, Ctx, Finish, Merged, Property, Tier};
use crate::evalcommon::clip;
use crate::print::value_text;
use crate::refeval::same;
use crate::refparse::lex_spans;
use crate::rng::{fnv, Rng};
use reval::expr::Expr;
use reval::prelude::Rule;
use reval::value::Value;
use rust_decimal::Decimal;
use serde_json::json;
use std::collections::BTreeMap;

pub const PROP: Property = Property { id: "C14", run, finish, shards: |_| 16, expect_s: |t| t.of(60, 500) };

#[derive(Clone, Debug)]
enum Part {
    /// a comment line: indentation, text after the two slashes (untrimmed)
    Comment { indent: String, body: String },
    /// @key: <text>;   with the constant it denotes (None = not a constant / not valid)
    Meta { key: String, text: String, value: Option<Value>, trailing_comment: Option<String> },
    /// a fragment of the expression on a line of its own
    Code { text: String, trailing_comment: Option<String> },
}

#[derive(Debug, PartialEq)]
enum Want {
    Rule { name: String, description: Option<String>, metadata: BTreeMap<String, Value> },
    MissingName,
    ParseError,
}

/// The statement of C14 as a model over the parts.
fn model(parts: &[Part], expr_ok: bool) -> Want {
    let mut metadata = BTreeMap::new();
    let mut name_meta: Option<String> = None;
    for p in parts {
        if let Part::Meta { key, value, .. } = p {
            match value {
                None => return Want::ParseError, // non-constant values are rejected
                Some(v) => {
                    if key == "name" {
                        match v {
                            Value::String(s) => name_meta = Some(s.clone()), // last occurrence wins
                            _ => return Want::ParseError,                    // @name must be a string
                        }
                    } else {
                        metadata.insert(key.clone(), v.clone()); // last occurrence wins
                    }
                }
            }
        }
    }
    if !expr_ok {
        return Want::ParseError;
    }
    let comments: Vec<String> = parts
        .iter()
        .filter_map(|p| match p {
            Part::Comment { body, .. } => Some(body.trim().to_string()),
            _ => None,
        })
        .collect();
    let name = match name_meta {
        Some(n) => n,
        None => match comments.first() {
            Some(c) => c.clone(),
            None => return Want::MissingName,
        },
    };
    let description = match metadata.get("description") {
        Some(Value::String(s)) => Some(s.clone()),
        Some(_) => None,
        None => {
            if comments.len() > 1 {
                Some(comments[1..].join("\n"))
            } else {
                None
            }
        }
    };
    Want::Rule { name, description, metadata }
}

fn render(parts: &[Part], eol: &str, final_eol: bool) -> String {
    let mut out = String::new();
    for (i, p) in parts.iter().enumerate() {
        match p {
            Part::Comment { indent, body } => out.push_str(&format!("{indent}//{body}")),
            Part::Meta { key, text, trailing_comment, .. } => {
                out.push_str(&format!("@{key}: {text};"));
                if let Some(c) = trailing_comment {
                    out.push_str(&format!(" //{c}"));
                }
            }
            Part::Code { text, trailing_comment } => {
                out.push_str(text);
                if let Some(c) = trailing_comment {
                    out.push_str(&format!(" //{c}"));
                }
            }
        }
        if i + 1 < parts.len() || final_eol {
            out.push_str(eol);
        }
    }
    out
}

/// what follows the two slashes of a trailing comment (never a comment line, whatever it contains)
fn trailing(rng: &mut Rng, one_in: usize) -> Option<String> {
    if !rng.chance(1, one_in) {
        return None;
    }
    Some(rng.pick(&[" trailing, not a comment line", "", " 6\" and taller", " \"quoted\"", " it's", " back\\slash", " ends with backslash \\", " \\\" escaped quote", " // nested", "/ triple", " @k: i1;", " \"", "\"\"\"", " a \" b \" c \" d", " ünï \u{a0}", " i1 + i2"]).to_string())
}

/// every character with the Unicode White_Space property that is not a line terminator for `str::lines`
const SPACES: [&str; 22] = [" ", "\t", "\u{b}", "\u{c}", "\u{85}", "\u{a0}", "\u{1680}", "\u{2000}", "\u{2001}", "\u{2002}", "\u{2003}", "\u{2004}", "\u{2005}", "\u{2006}", "\u{2007}", "\u{2008}", "\u{2009}", "\u{200a}", "\u{2028}", "\u{202f}", "\u{205f}", "\u{3000}"];
/// look like spaces but are not White_Space: they belong to the name
const NOT_SPACES: [&str; 4] = ["\u{200b}", "\u{feff}", "\u{180e}", "\u{2060}"];

fn comment_body(rng: &mut Rng) -> String {
    if rng.chance(1, 2) {
        return rng.pick(&[" rule name", "name", "  padded name  ", "", " ", "/ triple slash", " description line", " second // slashes", "\ttabbed", " ünï", " @k: i1;", " i1 + i2"]).to_string();
    }
    let pad = |rng: &mut Rng| -> String { (0..rng.below(4)).map(|_| *rng.pick(&SPACES)).collect() };
    let core = match rng.below(8) {
        0 => String::new(),
        1 => format!("{}name", rng.pick(&NOT_SPACES)),
        2 => format!("name{}", rng.pick(&NOT_SPACES)),
        3 => format!("two{}words", rng.pick(&SPACES)),
        4 => "6\" tall".to_string(),
        5 => "\"quoted\" \\".to_string(),
        _ => rng.pick(&["rule name", "n", "Description text.", "ünï çødé", "a // b", "x;"]).to_string(),
    };
    format!("{}{core}{}", pad(rng), pad(rng))
}

fn gen_const(rng: &mut Rng, depth: usize) -> Value {
    if rng.chance(1, 4) {
        // a random scalar that can be written as a literal
        loop {
            let t = *rng.pick(&["Int", "Float", "Decimal", "String", "Bool"]);
            let v = crate::pools::random_value(rng, t);
            if !matches!(&v, Value::Float(f) if !f.is_finite()) {
                return v;
            }
        }
    }
    let r = rng.below(if depth == 0 { 6 } else { 8 });
    match r {
        0 => Value::Int(*rng.pick(&[0i128, 1, -5, 42, i128::MAX, i128::MIN])),
        1 => Value::Float(*rng.pick(&[0.5f64, -2.25, 1e21, 5.0, 0.1])),
        2 => Value::Decimal(*rng.pick(&[Decimal::new(55, 1), Decimal::new(-1, 28), Decimal::new(100, 2)])),
        3 => Value::String(rng.pick(&["", "plain", "with \"quotes\"", "back\\slash", "// not a comment", "two\nlines", "ünï", "C:\\", "\\", "ends with quote\"", "\\\"", "a // b \\"]).to_string()),
        4 => Value::Bool(rng.chance(1, 2)),
        5 => Value::None,
        6 => Value::Vec((0..rng.below(4)).map(|_| gen_const(rng, depth - 1)).collect()),
        _ => {
            let mut m = BTreeMap::new();
            for _ in 0..rng.below(4) {
                m.insert(rng.pick(&["a", "b", "key1", "Name", "z_9"]).to_string(), gen_const(rng, depth - 1));
            }
            Value::Map(m)
        }
    }
}

const EXPRS: [&str; 20] = [
    "i1", "a + b * i2", "if x then \"y\" else none", "f(a).b.0", "[i1, {k: d2.5}]", "a contains \"s\" and !b", "\"multi\nline\"", "(i1)", "x == \"// slashes in a string\"", ":sym | i4",
    // a comment-looking line inside a multi-line string literal
    "\"first\n// inside a string literal\nlast\"",
    "lowercase(name) in [\"a\", \"b\"]",
    // operators directly followed by a string that spans lines and contains a comment-looking line
    "total /\"per\n// not a comment\nunit\"", "a ==\"x\n//y\" and b /\"/\"", "x /// a real trailing comment after a division\n y",
    // strings that end in an escaped backslash or an escaped quote, with code after them
    "\"C:\\\\temp\" == \"C:\\\\\"", "path contains \"\\\\\" and x", "\"say \\\"hi\\\"\" == s",
    // invalid expressions
    "i1 +", "a b",
];

fn gen_parts(rng: &mut Rng, n_comments: usize, n_meta: usize, expr: &str) -> Vec<Part> {
    let mut metas = vec![];
    for _ in 0..n_meta {
        let kind = rng.below(20);
        let key = rng.pick(&["k", "priority", "tags", "description", "name", "Name", "owner_1", "k", "names", "name2", "nam", "descriptions", "description2", "desc", "n", "NAME", "Description"]).to_string();
        let part = if kind < 13 {
            let v = if key == "name" && rng.chance(4, 5) { Value::String(rng.pick(&["meta name", "", " padded ", "n\"q"]).to_string()) } else if key == "description" && rng.chance(2, 3) { Value::String(rng.pick(&["meta description", "line1\nline2"]).to_string()) } else { gen_const(rng, 2) };
            Part::Meta { key, text: value_text(&v).expect("constant is printable"), value: Some(v), trailing_comment: trailing(rng, 5) }
        } else if kind < 17 {
            // not constants
            let text = rng.pick(&["a", "i1 + i2", "[i1, a]", "{x: f(i1)}", "-i5", "int(\"5\")", ":sym", "if true then i1 else i2", "[[i1, [a]]]"]).to_string();
            Part::Meta { key, text, value: None, trailing_comment: None }
        } else {
            // alternative spellings of constants: hex, escapes, trailing comma, redundant parentheses are NOT constants' syntax … (parenthesised literal is still a literal node)
            let (text, v) = match rng.below(8) {
                // string constants written over several lines, with lines that look like comments, metadata or the end of an item
                5 => ("\"first line\n// second line\"".to_string(), Value::String("first line\n// second line".into())),
                6 => ("\"a\n  // b \\\" c\n@k: i1;\n// d\"".to_string(), Value::String("a\n  // b \" c\n@k: i1;\n// d".into())),
                7 => ("[\"x\n//y\", {k: \"p\n// q\n\"}]".to_string(), Value::Vec(vec![Value::String("x\n//y".into()), Value::Map([("k".to_string(), Value::String("p\n// q\n".into()))].into_iter().collect())])),
                0 => ("0xff".to_string(), Value::Int(255)),
                1 => ("\"\\u{41}\\n\"".to_string(), Value::String("A\n".into())),
                2 => ("[i1, i2,]".to_string(), Value::Vec(vec![Value::Int(1), Value::Int(2)])),
                3 => ("(i7)".to_string(), Value::Int(7)),
                _ => ("{b: i1, a: i2, b: i3}".to_string(), Value::Map([("a".to_string(), Value::Int(2)), ("b".to_string(), Value::Int(3))].into_iter().collect())),
            };
            Part::Meta { key, text, value: Some(v), trailing_comment: None }
        };
        metas.push(part);
    }
    // split the expression into 1..3 code lines at token boundaries
    let mut codes = vec![];
    match lex_spans(expr) {
        Ok(spans) if spans.len() >= 2 && rng.chance(1, 2) => {
            let cut = 1 + rng.below(spans.len() - 1);
            let at = spans[cut].1;
            codes.push(Part::Code { text: expr[..at].trim_end().to_string(), trailing_comment: trailing(rng, 4) });
            codes.push(Part::Code { text: format!("{}{}", if rng.chance(1, 2) { "    " } else { "" }, &expr[at..]), trailing_comment: trailing(rng, 4) });
        }
        _ => codes.push(Part::Code { text: expr.to_string(), trailing_comment: trailing(rng, 4) }),
    }
    // a trailing comment right after a fragment that ends inside … a string cannot happen: cuts are at token boundaries.
    let mut parts: Vec<Part> = vec![];
    parts.extend(metas);
    parts.extend(codes);
    // comment lines anywhere: before, between, after
    for _ in 0..n_comments {
        let indent = if rng.chance(1, 6) { rng.pick(&SPACES).to_string() } else { rng.pick(&["", "", "  ", "\t", " \t ", "\u{a0}"]).to_string() };
        let body = comment_body(rng);
        let pos = rng.below(parts.len() + 1);
        parts.insert(pos, Part::Comment { indent, body });
    }
    parts
}

fn trailing_comment_inside_string_hazard(parts: &[Part]) -> bool {
    // a trailing "// …" appended to a code fragment whose last token is a string containing a newline is still fine;
    // but a fragment that *ends within* a multi-line string cannot occur (cuts are token boundaries)
    let _ = parts;
    false
}

fn judge(ctx: &mut Ctx, parts: &[Part], expr_text: &str, eol: &str, final_eol: bool, family: &str) {
    let text = render(parts, eol, final_eol);
    ctx.begin(|| format!("{family}\t{text}"));
    ctx.count();
    ctx.hit(&format!("family:{family}"));
    let expected_expr = Expr::parse(expr_text).ok();
    let want = model(parts, expected_expr.is_some());
    ctx.nontrivial(fnv(text.as_bytes()));
    let n_comments = parts.iter().filter(|p| matches!(p, Part::Comment { .. })).count();
    let n_meta = parts.iter().filter(|p| matches!(p, Part::Meta { .. })).count();
    ctx.hit(&format!("layout:comments{}-meta{}", n_comments.min(4), n_meta.min(4)));
    // does a line *inside a string literal* look like a comment line?  (known weak spot)
    let hazard = parts.iter().any(|p| match p {
        Part::Code { text, .. } | Part::Meta { text, .. } => text.lines().skip(1).any(|l| l.trim_start().starts_with("//")),
        _ => false,
    });
    let got = guard(|| Rule::parse(&text));
    let fail = |ctx: &mut Ctx, class: &str, what: String| {
        let class = if hazard { format!("{class} [comment-like line inside a string literal]") } else { class.to_string() };
        ctx.violation(format!("C14 {class}"), what, json!({"rule_text": clip(text.clone(), 800), "expected": clip(format!("{want:?}"), 600), "parts": clip(format!("{parts:?}"), 800)}));
    };
    match (&want, got) {
        (_, Err(p)) => fail(ctx, "panic", p),
        (Want::MissingName, Ok(Err(reval::parse::Error::MissingRuleName))) => {
            ctx.hit("outcome:missing-name");
            ctx.sample("missing-name", || json!({"rule_text": clip(text.clone(), 200)}));
        }
        (Want::ParseError, Ok(Err(reval::parse::Error::RuleParseError(_)))) => {
            ctx.hit("outcome:parse-error");
            ctx.sample("parse-error", || json!({"rule_text": clip(text.clone(), 200)}));
        }
        (Want::Rule { name, description, metadata }, Ok(Ok(rule))) => {
            ctx.hit("outcome:rule");
            if rule.name() != name {
                return fail(ctx, "wrong-name", format!("name is {:?}, expected {:?}", rule.name(), name));
            }
            if rule.description() != description.as_deref() {
                return fail(ctx, "wrong-description", format!("description is {:?}, expected {:?}", rule.description(), description));
            }
            for (k, v) in metadata {
                match rule.get_metadata(k) {
                    Some(g) if same(g, v) => {}
                    other => return fail(ctx, "wrong-metadata", format!("metadata {k} is {other:?}, expected {v:?}")),
                }
            }
            for (k, _) in rule.iter_metadata() {
                if !metadata.contains_key(k) && k != "description" {
                    return fail(ctx, "extra-metadata", format!("unexpected metadata key {k}"));
                }
                if k == "name" {
                    return fail(ctx, "extra-metadata", "name must not be stored as metadata".into());
                }
            }
            if Some(rule.expr()) != expected_expr.as_ref() {
                return fail(ctx, "wrong-expression", format!("expression is {:?}", rule.expr()));
            }
            if description.is_some() {
                ctx.hit("outcome:rule-with-description");
            }
            ctx.sample(&format!("rule:{family}"), || json!({"rule_text": clip(text.clone(), 300), "name": name, "description": description}));
        }
        (_, Ok(got)) => {
            let g = match &got {
                Ok(r) => format!("Ok(name={:?})", r.name()),
                Err(e) => format!("Err({e})"),
            };
            let class = match (&want, &got) {
                (Want::Rule { .. }, Err(reval::parse::Error::MissingRuleName)) => "missing-name-reported-but-a-name-was-supplied",
                (Want::Rule { .. }, Err(_)) => "valid-rule-rejected",
                (Want::MissingName, Ok(_)) => "nameless-rule-accepted",
                (Want::MissingName, Err(_)) => "wrong-error-for-missing-name",
                (Want::ParseError, Ok(_)) => "invalid-rule-accepted",
                (Want::ParseError, Err(_)) => "wrong-error-kind",
                _ => "mismatch",
            };
            fail(ctx, class, format!("observed {}", clip(g, 300)));
        }
    }
    let _ = trailing_comment_inside_string_hazard(parts);
}

fn run(ctx: &mut Ctx) {
    let mut rng = ctx.rng.clone();
    // systematic: comment lines 0..3 x metadata items 0..3 x expression texts x line endings, the
    // positions and contents drawn at random per cell (several draws per cell)
    let draws = ctx.tier.of(12, 100);
    for nc in 0..=3 {
        for nm in 0..=3 {
            for e in EXPRS {
                for eol in ["\n", "\r\n"] {
                    for final_eol in [true, false] {
                        for _ in 0..draws {
                            if !ctx.mine() {
                                // keep the random stream aligned across shards
                                continue;
                            }
                            let parts = gen_parts(&mut rng, nc, nm, e);
                            judge(ctx, &parts, e, eol, final_eol, "grid");
                        }
                    }
                }
            }
        }
    }
    // deeply nested and wide metadata constants: nesting 3..120 (lists and maps alternating at random), lists of up to 3000 items, 40 items per rule
    for k in 0..ctx.tier.of(120, 1_200) {
        let depth = if k % 10 == 9 { 250 + (k * 37) % 650 } else { 3 + (k % 118) };
        let mut v = gen_const(&mut rng, 1);
        for level in 0..depth {
            v = if rng.chance(1, 2) { Value::Vec(if level % 5 == 0 { vec![Value::Int(level as i128), v] } else { vec![v] }) } else { Value::Map([(format!("k{}", level % 3), v)].into_iter().collect()) };
        }
        let mut parts = vec![Part::Comment { indent: String::new(), body: " deep".into() }, Part::Meta { key: "tree".into(), text: value_text(&v).expect("printable"), value: Some(v), trailing_comment: None }];
        if k % 3 == 0 {
            let wide = Value::Vec((0..(50 + rng.below(3_000))).map(|i| Value::Int(i as i128)).collect());
            parts.push(Part::Meta { key: "wide".into(), text: value_text(&wide).expect("printable"), value: Some(wide), trailing_comment: None });
        }
        if k % 4 == 0 {
            for i in 0..40 {
                let c = gen_const(&mut rng, 1);
                parts.push(Part::Meta { key: format!("k{i}"), text: value_text(&c).expect("printable"), value: Some(c), trailing_comment: None });
            }
        }
        parts.push(Part::Code { text: "i1".into(), trailing_comment: None });
        judge(ctx, &parts, "i1", "\n", true, "deep-and-wide-metadata");
    }
    // many comment lines / many metadata items: the name is still the first line, the description every other line in order, every item kept
    for (k, n) in [100usize, 1_000, 5_000, 20_000].into_iter().enumerate() {
        if !ctx.mine() {
            continue;
        }
        let mut parts: Vec<Part> = vec![];
        for i in 0..n {
            parts.push(Part::Comment { indent: if i % 7 == 0 { "  ".into() } else { String::new() }, body: format!(" line {i} ") });
            if i % 50 == 3 && k < 3 {
                parts.push(Part::Meta { key: format!("k{i}"), text: format!("i{i}"), value: Some(Value::Int(i as i128)), trailing_comment: None });
            }
        }
        parts.push(Part::Code { text: "i1".into(), trailing_comment: None });
        parts.push(Part::Comment { indent: String::new(), body: " the last line".into() });
        judge(ctx, &parts, "i1", if k % 2 == 0 { "\n" } else { "\r\n" }, k % 2 == 0, "many-comment-lines-and-items");
        // many items with the same key: the last one wins
        let mut parts: Vec<Part> = vec![Part::Comment { indent: String::new(), body: " n".into() }];
        for i in 0..n.min(3_000) {
            parts.push(Part::Meta { key: format!("k{}", i % 17), text: format!("i{i}"), value: Some(Value::Int(i as i128)), trailing_comment: None });
        }
        parts.push(Part::Code { text: "i1".into(), trailing_comment: None });
        judge(ctx, &parts, "i1", "\n", true, "many-comment-lines-and-items");
    }
    // characters that look like nothing but are not whitespace (BOM, zero-width space, soft hyphen, word joiner, NUL …) in front of the
    // text, of a comment line, of a metadata item or of the expression: the grammar derives none of them, the text is not a rule
    for (k, ch) in ["\u{feff}", "\u{200b}", "\u{ad}", "\u{2060}", "\u{0}", "\u{180e}", "\u{200e}", "\u{7f}", "\u{1}", "\u{fffe}"].into_iter().enumerate() {
        if !ctx.mine() {
            continue;
        }
        for (j, text) in [format!("{ch}// name\ni1"), format!("// name\n{ch}@k: i1;\ni1"), format!("// name\n@k: i1;\n{ch}i1"), format!("{ch}@name: \"n\";\ni1"), format!("// name\ni1{ch}"), format!("// name\n  {ch}  // second\ni1")].into_iter().enumerate() {
            ctx.begin(|| format!("invisible\t{text:?}"));
            ctx.count();
            ctx.hit("family:invisible-non-whitespace-characters");
            ctx.nontrivial(fnv(text.as_bytes()));
            // the expression part with that character must itself be unparseable for the verdict to be forced
            if Expr::parse(&format!("{ch}i1")).is_ok() || Expr::parse(&format!("i1{ch}")).is_ok() {
                ctx.hit("invisible:character-is-accepted-by-the-expression-grammar");
                continue;
            }
            match guard(|| Rule::parse(&text)) {
                Err(p) => ctx.violation("C14 panic".to_string(), p, json!({"rule_text": text})),
                Ok(Ok(r)) => ctx.violation(format!("C14 invalid-rule-accepted [invisible character U+{:04X} position {j}]", ch.chars().next().unwrap() as u32), format!("a text that the grammar does not derive was accepted as rule {:?}", r.name()), json!({"rule_text": text})),
                Ok(Err(_)) => ctx.hit("outcome:invisible-character-rejected"),
            }
            let _ = k;
        }
    }
    // random beyond: more comment lines and items
    let n = ctx.tier.of(10_000, 100_000);
    for _ in 0..n {
        let nc = rng.below(7);
        let nm = rng.below(6);
        let e = EXPRS[rng.below(EXPRS.len())];
        let parts = gen_parts(&mut rng, nc, nm, e);
        let eol = if rng.chance(1, 2) { "\n" } else { "\r\n" };
        judge(ctx, &parts, e, eol, rng.chance(1, 2), "random");
    }
    ctx.rng = rng;
}

fn finish(m: &Merged, tier: Tier) -> Finish {
    let mut f = Finish {
        rule: "rule texts are assembled from kept parts — comment lines (indentation, content, empty, triple slash, position before/between/after metadata and expression lines), metadata items (constants printed by the harness from generated Value trees, duplicates, @name/@description of string and non-string type, non-constant values, alternative spellings of constants), metadata nested 3-120 levels / lists of up to 3000 items / 40 items per rule, comment padding drawn from every White_Space character (and look-alike non-spaces that must be kept), 1-2 expression lines with or without trailing comments (texts with lone quotes, backslashes, //, @k: i1;), \\n or \\r\\n — and Rule::parse must return exactly the name / description / metadata / expression (or the error kind) that a 40-line model of the statement computes from the parts. Every case is non-trivial; distinct by rule text".into(),
        exhaustive: false,
        exhaustive_part: "the grid comments 0..3 x metadata 0..3 x 14 expression texts x 2 line endings x final newline yes/no is covered completely, with positions/contents drawn at random inside each cell".into(),
        ..Default::default()
    };
    f.floors.push(floor(format!("layout cells (comments x metadata) seen: {}", m.prefix_count("layout:")), m.prefix_count("layout:") >= 16));
    for (o, min) in [("rule", tier.of(5_000, 50_000)), ("rule-with-description", 1_000), ("missing-name", 300), ("parse-error", 2_000)] {
        f.floors.push(floor(format!("outcome {o}: {}", m.c(&format!("outcome:{o}"))), m.c(&format!("outcome:{o}")) >= min as u64));
    }
    f.extras.insert("outcomes".into(), json!(m.prefix_map("outcome:")));
    f.extras.insert("layouts".into(), json!(m.prefix_map("layout:")));
    f.extras.insert("families".into(), json!(m.prefix_map("family:")));
    f.assumptions = vec!["the expected expression is Expr::parse(expression text) — the statement's own formulation; C07/C08 judge Expr::parse itself".into(), "lone \\r line endings are not generated (the statement speaks of \\n and \\r\\n)".into()];
    f
}
