//! C18 — rulesets can be shared across threads and evaluated from any task.
//! (1) type-level gate: the `sendprobe` crate states exactly the auto-trait bounds of the statement;
//!     an E0277 diagnostic located in it is the violation (the observer is the compiler — the one
//!     place where no execution can witness the property; it is also what the runtime half needs to build);
//! (2) runtime: `c18mt` evaluates one Arc<RuleSet> from N threads with futures migrating between
//!     threads at every suspension and compares with the sequential baseline — natively at stress
//!     size, and in the thorough tier under ThreadSanitizer and under Miri.

use crate::core::{conclude, floor, seed_from_env, verif_dir, Finish, Merged, Tier, Violation};
use serde_json::{json, Value as J};
use std::collections::BTreeMap;
use std::path::PathBuf;
use std::process::Command;
use std::time::Instant;

fn harness_dir() -> PathBuf {
    verif_dir().join("harness")
}

fn target_base() -> PathBuf {
    std::env::var("CARGO_TARGET_DIR").map(PathBuf::from).unwrap_or_else(|_| harness_dir().join("target"))
}

fn cargo(toolchain: Option<&str>) -> Command {
    let mut c = Command::new("cargo");
    if let Some(t) = toolchain {
        c.arg(t);
    }
    c.current_dir(harness_dir());
    c.env("CARGO_NET_OFFLINE", "true");
    c
}

fn extra_config(c: &mut Command) {
    if let Ok(repo) = std::env::var("VERIF_REPO") {
        c.arg("--config").arg(format!("paths=[\"{repo}\"]"));
    }
}

struct Gate {
    violations: Vec<(String, String)>,
    inconclusive: Option<String>,
    bounds_checked: u64,
}

fn type_gate() -> Gate {
    let mut c = cargo(None);
    c.args(["build", "--offline", "--profile", "verif", "-p", "sendprobe", "--message-format=json"]);
    extra_config(&mut c);
    let out = match c.output() {
        Ok(o) => o,
        Err(e) => return Gate { violations: vec![], inconclusive: Some(format!("cannot run cargo: {e}")), bounds_checked: 0 },
    };
    let mut violations = vec![];
    let mut other_errors = vec![];
    for line in String::from_utf8_lossy(&out.stdout).lines() {
        let Ok(j) = serde_json::from_str::<J>(line) else { continue };
        if j["reason"] != "compiler-message" || j["message"]["level"] != "error" {
            continue;
        }
        let in_probe = j["target"]["name"] == "sendprobe";
        let code = j["message"]["code"]["code"].as_str().unwrap_or("");
        let msg = j["message"]["message"].as_str().unwrap_or("").to_string();
        let rendered = j["message"]["rendered"].as_str().unwrap_or("").to_string();
        if in_probe && code == "E0277" {
            violations.push((msg, rendered));
        } else if !msg.starts_with("aborting due to") {
            other_errors.push(format!("{}: {msg}", j["target"]["name"].as_str().unwrap_or("?")));
        }
    }
    let inconclusive = if !out.status.success() && violations.is_empty() { Some(format!("sendprobe does not build for another reason: {}", other_errors.first().cloned().unwrap_or_else(|| String::from_utf8_lossy(&out.stderr).lines().last().unwrap_or("").to_string()))) } else { None };
    Gate { violations, inconclusive, bounds_checked: 9 + 3 }
}

struct MtRun {
    label: String,
    summary: Option<J>,
    exit: Option<i32>,
    stderr: String,
}

fn parse_summary(stdout: &str) -> Option<J> {
    stdout.lines().rev().find_map(|l| l.strip_prefix("C18MT ").and_then(|j| serde_json::from_str(j).ok()))
}

fn run_bin(label: &str, bin: &std::path::Path, args: &[String], envs: &[(&str, String)]) -> MtRun {
    let mut c = Command::new(bin);
    c.args(args);
    for (k, v) in envs {
        c.env(k, v);
    }
    match c.output() {
        Ok(o) => MtRun { label: label.to_string(), summary: parse_summary(&String::from_utf8_lossy(&o.stdout)), exit: o.status.code(), stderr: String::from_utf8_lossy(&o.stderr).to_string() },
        Err(e) => MtRun { label: label.to_string(), summary: None, exit: None, stderr: format!("cannot start: {e}") },
    }
}

/// first frame inside reval (or the harness) of a sanitizer report, for de-duplication
fn first_repo_frame(report: &str) -> String {
    for l in report.lines() {
        let t = l.trim();
        if t.starts_with('#') && (t.contains("reval") || t.contains("/repo/")) {
            let f = t.split_whitespace().nth(1).unwrap_or(t);
            return f.to_string();
        }
    }
    "no-reval-frame".into()
}

pub fn drive(tier: Tier) -> i32 {
    let t0 = Instant::now();
    let seed = seed_from_env();
    let mut inconclusive = vec![];
    let mut m = Merged { evaluations: 0, distinct_nontrivial: 0, counters: BTreeMap::new(), samples: BTreeMap::new(), violations: BTreeMap::new() };
    let mut extras = serde_json::Map::new();

    // (1) the type-level gate
    let gate = type_gate();
    extras.insert("auto_trait_bounds_stated".into(), json!(gate.bounds_checked));
    for (msg, rendered) in &gate.violations {
        let sig = format!("C18 auto-trait {}", msg.split('\n').next().unwrap_or(msg));
        m.violations.insert(sig.clone(), Violation { sig, what: "a type or evaluation future named by the statement is not Send / Sync (compiler diagnostic in the sendprobe crate)".into(), case: json!({"diagnostic": rendered}), count: 1 });
    }
    if let Some(why) = &gate.inconclusive {
        inconclusive.push(why.clone());
    }

    let mut runs: Vec<J> = vec![];
    if gate.violations.is_empty() && gate.inconclusive.is_none() {
        // (2) native stress run
        let mut c = cargo(None);
        c.args(["build", "--offline", "--quiet", "--profile", "verif", "-p", "c18mt"]);
        extra_config(&mut c);
        match c.output() {
            Ok(o) if o.status.success() => {
                let bin = target_base().join("verif").join("c18mt");
                // quick: 72 000 evaluations in the first run (more than 2^16 evaluations of one shared ruleset)
                let per_thread = tier.of(4_500u64, 20_000);
                for (k, threads, jitter) in [(0u64, 16u64, "jitter"), (1, 16, "nojitter"), (2, 48, "jitter"), (3, 3, "nojitter")] {
                    let r = run_bin("native", &bin, &[threads.to_string(), (per_thread * 16 / threads / (1 + k * 3)).max(50).to_string(), (seed + k).to_string(), jitter.into()], &[]);
                    absorb(&mut m, &mut inconclusive, &mut runs, r, false);
                }
                // churn: every ruleset is built concurrently with all the others (barrier + tight loop on every thread) and evaluated
                // back to back with the one whose construction started next
                for (k, threads) in [(0u64, 16u64), (1, 48), (2, 16)] {
                    let r = run_bin("native-churn", &bin, &[threads.to_string(), (tier.of(2_500u64, 6_000) * 16 / threads).max(50).to_string(), (seed + 20 + k).to_string(), "nojitter".into(), "churn".into()], &[]);
                    absorb(&mut m, &mut inconclusive, &mut runs, r, false);
                }
            }
            Ok(o) => inconclusive.push(format!("c18mt does not build: {}", String::from_utf8_lossy(&o.stderr).lines().last().unwrap_or(""))),
            Err(e) => inconclusive.push(format!("cannot run cargo: {e}")),
        }
        if tier == Tier::Thorough {
            // (3a) ThreadSanitizer
            let tsan_dir = target_base().join("tsan");
            let mut c = cargo(Some("+nightly"));
            c.args(["build", "--offline", "--quiet", "-Zbuild-std", "--target", "x86_64-unknown-linux-gnu", "--release", "-p", "c18mt"]);
            extra_config(&mut c);
            c.env("RUSTFLAGS", "-Zsanitizer=thread").env("CARGO_TARGET_DIR", &tsan_dir);
            match c.output() {
                Ok(o) if o.status.success() => {
                    let bin = tsan_dir.join("x86_64-unknown-linux-gnu/release/c18mt");
                    let canary = run_bin("tsan-canary", &bin, &["tsan-canary".into()], &[("TSAN_OPTIONS", "halt_on_error=0".into())]);
                    let live = canary.stderr.contains("ThreadSanitizer: data race");
                    extras.insert("tsan_canary_reported_the_deliberate_race".into(), json!(live));
                    if !live {
                        inconclusive.push("the ThreadSanitizer build did not report the deliberate canary race: sanitizer not live".into());
                    }
                    for k in 0..4u64 {
                        let mut args: Vec<String> = vec!["16".into(), "400".into(), (seed + 10 + k).to_string(), "jitter".into()];
                        if k == 3 {
                            args.push("churn".into());
                        }
                        let r = run_bin("tsan", &bin, &args, &[("TSAN_OPTIONS", "halt_on_error=0 exitcode=66".into())]);
                        let reports = r.stderr.matches("WARNING: ThreadSanitizer").count();
                        *m.counters.entry("tsan_reports".into()).or_insert(0) += reports as u64;
                        if reports > 0 {
                            for rep in r.stderr.split("WARNING: ThreadSanitizer").skip(1) {
                                let sig = format!("C18 tsan {}", first_repo_frame(rep));
                                m.violations.entry(sig.clone()).or_insert(Violation { sig, what: "ThreadSanitizer reported a data race while one ruleset was evaluated from 16 threads".into(), case: json!({"report": rep.chars().take(3000).collect::<String>()}), count: 1 });
                            }
                        }
                        absorb(&mut m, &mut inconclusive, &mut runs, r, true);
                    }
                }
                Ok(o) => inconclusive.push(format!("the ThreadSanitizer build failed: {}", String::from_utf8_lossy(&o.stderr).lines().last().unwrap_or(""))),
                Err(e) => inconclusive.push(format!("cannot run cargo +nightly: {e}")),
            }
            // (3b) Miri: data-race and UB detection over the schedules its seeds produce. One process per seed, all at once (the
            // many-seeds mode of one process is an order of magnitude slower here and interleaves the reports of its seeds)
            let miri_dir = target_base().join("miri");
            // the first invocation builds the Miri sysroot and the crate (its own run is a 4-evaluation smoke test)
            let mut first = cargo(Some("+nightly"));
            first.args(["miri", "run", "--offline", "--quiet", "-p", "c18mt"]);
            extra_config(&mut first);
            first.args(["--", "2", "2", "1"]);
            first.env("MIRIFLAGS", "-Zmiri-seed=99").env("CARGO_TARGET_DIR", &miri_dir);
            match first.output() {
                Ok(o) if String::from_utf8_lossy(&o.stdout).contains("C18MT {") => {}
                Ok(o) => inconclusive.push(format!("the Miri build / smoke run failed: {}", String::from_utf8_lossy(&o.stderr).lines().last().unwrap_or(""))),
                Err(e) => inconclusive.push(format!("cannot run cargo miri: {e}")),
            }
            let outs: Vec<Option<std::process::Output>> = std::thread::scope(|sc| {
                let hs: Vec<_> = (0..16u64)
                    .map(|k| {
                        let miri_dir = miri_dir.clone();
                        sc.spawn(move || {
                            let mut c = cargo(Some("+nightly"));
                            c.args(["miri", "run", "--offline", "--quiet", "-p", "c18mt"]);
                            extra_config(&mut c);
                            let extra: Vec<String> = if k % 4 == 3 { vec!["6".into(), "2".into(), (seed + k).to_string(), "nojitter".into(), "churn".into()] } else { vec!["8".into(), "3".into(), (seed + k).to_string()] };
                            c.arg("--").args(extra);
                            c.env("MIRIFLAGS", format!("-Zmiri-seed={k}")).env("CARGO_TARGET_DIR", &miri_dir);
                            c.output().ok()
                        })
                    })
                    .collect();
                hs.into_iter().map(|h| h.join().unwrap_or(None)).collect()
            });
            let mut seeds_done = 0u64;
            for (k, o) in outs.into_iter().enumerate() {
                let Some(o) = o else {
                    inconclusive.push(format!("cannot run cargo miri (seed {k})"));
                    continue;
                };
                let out = String::from_utf8_lossy(&o.stdout).to_string();
                let err = String::from_utf8_lossy(&o.stderr).to_string();
                if err.contains("Undefined Behavior") || err.contains("Data race detected") {
                    let first = err.lines().find(|l| l.contains("Undefined Behavior") || l.contains("Data race")).unwrap_or("").to_string();
                    let sig = format!("C18 miri {}", first.chars().take(120).collect::<String>());
                    m.violations.insert(sig.clone(), Violation { sig, what: "Miri reported undefined behaviour / a data race in the concurrent evaluation workload".into(), case: json!({"miri_seed": k, "report": err.chars().take(4000).collect::<String>()}), count: 1 });
                    continue;
                }
                let summary = out.lines().filter_map(|l| l.strip_prefix("C18MT ")).filter_map(|j| serde_json::from_str::<J>(j).ok()).next();
                match summary {
                    Some(j) => {
                        seeds_done += 1;
                        m.evaluations += j["evaluations"].as_u64().unwrap_or(0);
                        if j["mismatches"].as_u64().unwrap_or(0) > 0 {
                            let sig = "C18 concurrent-outcome-differs (under Miri)".to_string();
                            m.violations.insert(sig.clone(), Violation { sig, what: "outcomes under Miri's schedules differ from the sequential baseline".into(), case: json!({"miri_seed": k, "first_mismatches": j["first_mismatches"]}), count: 1 });
                        }
                    }
                    None => inconclusive.push(format!("Miri seed {k} did not complete: {}", err.lines().last().unwrap_or(""))),
                }
            }
            extras.insert("miri_seeds_completed".into(), json!(seeds_done));
            *m.counters.entry("miri_seeds".into()).or_insert(0) += seeds_done;
        }
    }
    m.samples.insert("runs".into(), runs.iter().take(5).cloned().collect());
    let mut fin = Finish {
        rule: "type-level: the sendprobe crate must compile (Send + Sync for RuleSet, Rule, Expr, Index, Value, Symbols, Error, parse::Error, Outcome; Send for the futures of Expr::evaluate, RuleSet::evaluate_value and RuleSet::evaluate). Runtime: N x M tasks on N = 3 / 16 / 48 threads pulling from one shared run queue, so every suspended future is resumed by whichever thread takes it next. Half of the tasks evaluate one shared Arc<RuleSet> A (8 rules: cacheable / non-cacheable / failing / suspending user functions, symbols, lazy operators) on distinct inputs, a quarter a second shared ruleset B with the same function / symbol / rule names but different behaviour, an eighth a bare Expr::evaluate, an eighth build their own ruleset inside the task, evaluate and drop it (so allocations of dropped rulesets are reused while other evaluations run); in the churn runs every task has its own ruleset, all of them built at the same moment by all threads (barrier, then a tight loop of builds), and evaluates it back to back with the ruleset whose construction started next; each outcome and each per-evaluation invocation log must equal the baseline obtained by running the same tasks one after another on one thread. evaluations = concurrent evaluations compared; non-trivial = evaluations whose future migrated between threads at least once".into(),
        exhaustive: false,
        ..Default::default()
    };
    fin.floors.push(floor(format!("evaluations whose future migrated between threads: {}", m.distinct_nontrivial), gate.violations.is_empty() && m.distinct_nontrivial >= tier.of(1_000, 10_000) || !gate.violations.is_empty()));
    if tier == Tier::Thorough && gate.violations.is_empty() {
        fin.floors.push(floor(format!("Miri seeds completed: {}", m.c("miri_seeds")), m.c("miri_seeds") >= 16));
    }
    extras.insert("runs".into(), json!(runs));
    extras.insert("tsan_reports".into(), json!(m.c("tsan_reports")));
    fin.extras = extras;
    fin.assumptions = vec![
        "auto-trait membership cannot be witnessed by an execution; it is decided by compiling sendprobe (the compiler is the observer) and is the precondition for building the runtime workload".into(),
        "thread interleavings are sampled by real runs (with injected yields / sleeps), by ThreadSanitizer's happens-before analysis of those runs, and by Miri's 16 scheduler seeds".into(),
    ];
    conclude("C18", tier, seed, t0, &m, fin, inconclusive, 16)
}

fn absorb(m: &mut Merged, inconclusive: &mut Vec<String>, runs: &mut Vec<J>, r: MtRun, sanitizer: bool) {
    match &r.summary {
        Some(j) => {
            m.evaluations += j["evaluations"].as_u64().unwrap_or(0);
            m.distinct_nontrivial += j["tasks_migrated"].as_u64().unwrap_or(0);
            let mism = j["mismatches"].as_u64().unwrap_or(0);
            if mism > 0 {
                let sig = "C18 concurrent-outcome-differs".to_string();
                m.violations.entry(sig.clone()).or_insert(Violation { sig, what: format!("{mism} concurrent evaluations differ from running them one after another"), case: json!({"run": r.label, "first_mismatches": j["first_mismatches"]}), count: mism });
            }
            runs.push(json!({"run": r.label, "threads": j["threads"], "evaluations": j["evaluations"], "evaluations_by_kind": j["evaluations_by_kind"], "polls": j["polls"], "migrations": j["migrations"], "tasks_migrated": j["tasks_migrated"], "mismatches": mism}));
        }
        None => {
            if !(sanitizer && r.exit == Some(66)) {
                inconclusive.push(format!("{} run produced no summary (exit {:?}): {}", r.label, r.exit, r.stderr.lines().last().unwrap_or("")));
            }
        }
    }
}
