//! E4 — instrumented user functions, the invocation log they write, fault plans, and the
//! model-side `Host` (sequential cache model of C11) that predicts the log.

use crate::exec::{YieldN, CURRENT_EVAL};
use crate::refeval::{same, CallRes, Host};
use async_trait::async_trait;
use reval::prelude::*;
use std::collections::BTreeMap;
use std::sync::{Arc, Mutex};

#[derive(Clone, Copy, Debug, PartialEq, Eq)]
pub enum Kind {
    /// returns true
    T,
    /// returns false
    F,
    /// returns None
    N,
    /// returns its argument
    V,
    /// always fails
    E,
    /// returns [name, argument] — makes results of different functions distinguishable
    Tag,
    /// always fails, and the failure is itself a `reval::Error` (the `param.try_into()?` idiom)
    ER,
    /// always fails, and the failure is itself a `reval::Error::UserFunctionError` naming ANOTHER function (a function that
    /// evaluates an inner ruleset and propagates its failure with `?`)
    EU,
    /// returns a Float NaN (a value that is not equal to itself)
    NaN,
    /// returns the Int 0 / the empty string (values a sloppy implementation might treat as "false" or "nothing")
    Zero,
    Empty,
}

#[derive(Clone, Debug)]
pub struct FnDesc {
    pub name: &'static str,
    pub cacheable: bool,
    pub kind: Kind,
    /// number of times the call returns Pending before completing
    pub suspend: usize,
}

/// Fail the j-th invocation (0-based, per evaluation) of (function, argument).
#[derive(Clone, Debug, Default)]
pub struct FaultPlan {
    pub faults: Vec<(String, Value, usize)>,
}

impl FaultPlan {
    pub fn fails(&self, name: &str, arg: &Value, j: usize) -> bool {
        self.faults.iter().any(|(n, a, k)| n == name && *k == j && same(a, arg))
    }
}

#[derive(Clone, Debug)]
pub struct Entry {
    pub eval: u64,
    pub func: &'static str,
    pub arg: Value,
    pub outcome: Result<Value, String>,
}

#[derive(Default)]
pub struct LogState {
    pub entries: Vec<Entry>,
    /// invocation counters per evaluation: (function, argument, count), bucketed by a hash of the rendering (equality is still `same`)
    counts: std::collections::HashMap<u64, std::collections::HashMap<u64, Vec<(&'static str, Value, usize)>>>,
}

#[derive(Default)]
pub struct Log {
    pub state: Mutex<LogState>,
}

impl Log {
    pub fn take(&self) -> Vec<Entry> {
        let mut s = self.state.lock().unwrap();
        s.counts.clear();
        std::mem::take(&mut s.entries)
    }
}

pub fn outcome_of(kind: Kind, name: &str, arg: &Value, fault: bool, j: usize) -> Result<Value, String> {
    if kind == Kind::ER {
        return Err(reval::Error::InvalidType.to_string());
    }
    if kind == Kind::EU {
        return Err(inner_failure().to_string());
    }
    if fault || kind == Kind::E {
        return Err(format!("boom {name} #{j}"));
    }
    Ok(match kind {
        Kind::T => Value::Bool(true),
        Kind::F => Value::Bool(false),
        Kind::N => Value::None,
        Kind::V => arg.clone(),
        Kind::Tag => Value::Vec(vec![Value::String(name.to_string()), arg.clone()]),
        Kind::NaN => Value::Float(f64::NAN),
        Kind::Zero => Value::Int(0),
        Kind::Empty => Value::String(String::new()),
        Kind::E | Kind::ER | Kind::EU => unreachable!(),
    })
}

/// what a function of kind EU fails with: the failure of some inner function, already wrapped by an inner evaluation
pub fn inner_failure() -> reval::Error {
    reval::Error::UserFunctionError { function: "inner_lookup".to_string(), error: anyhow::anyhow!("inner boom") }
}

pub struct TFn {
    pub desc: FnDesc,
    pub log: Arc<Log>,
    pub plan: Arc<FaultPlan>,
}

#[async_trait]
impl UserFunction for TFn {
    async fn call(&self, param: Value) -> FunctionResult {
        // Record the invocation *first* (an invocation counts when the function is entered, also if
        // the evaluation is later dropped while this call is suspended).
        let eval = CURRENT_EVAL.with(|c| c.get());
        let outcome = {
            let mut s = self.log.state.lock().unwrap();
            let name = self.desc.name;
            let per_eval = s.counts.entry(eval).or_default().entry(bucket(name, &param)).or_default();
            let j = match per_eval.iter_mut().find(|(n, a, _)| *n == name && same(a, &param)) {
                Some(c) => {
                    c.2 += 1;
                    c.2 - 1
                }
                None => {
                    per_eval.push((name, param.clone(), 1));
                    0
                }
            };
            let outcome = outcome_of(self.desc.kind, name, &param, self.plan.fails(name, &param, j), j);
            s.entries.push(Entry { eval, func: name, arg: param.clone(), outcome: outcome.clone() });
            outcome
        };
        let suspend = self.desc.suspend + EXTRA_SUSPEND.load(std::sync::atomic::Ordering::Relaxed);
        if suspend > 0 {
            YieldN(suspend).await;
        }
        if self.desc.kind == Kind::ER {
            return Err(anyhow::Error::new(reval::Error::InvalidType));
        }
        if self.desc.kind == Kind::EU {
            return Err(anyhow::Error::new(inner_failure()));
        }
        // "tgoff…": from now on (until the harness resets the switch) the "tg…" functions declare themselves non-cacheable
        if self.desc.name.starts_with("tgoff") {
            TOGGLE_CACHEABLE.store(false, std::sync::atomic::Ordering::SeqCst);
        }
        outcome.map_err(|m| anyhow::anyhow!(m))
    }

    fn name(&self) -> &'static str {
        self.desc.name
    }

    fn cacheable(&self) -> bool {
        // functions named "tg…" declare whatever the switch says at the moment they are asked (a price feed that is
        // repeatable while the market is closed, …); the harness flips the switch only between evaluations
        if self.desc.name.starts_with("tg") && !self.desc.name.starts_with("tgoff") {
            return TOGGLE_CACHEABLE.load(std::sync::atomic::Ordering::SeqCst);
        }
        self.desc.cacheable
    }
}

/// added to every function's suspension count (C05 replays each history with all functions suspending: operands that are polled
/// concurrently, or started before the previous one has finished, only show when a call returns Pending)
pub static EXTRA_SUSPEND: std::sync::atomic::AtomicUsize = std::sync::atomic::AtomicUsize::new(0);

/// what every "tg…" function answers from `cacheable()` right now (each shard is a single-threaded process)
pub static TOGGLE_CACHEABLE: std::sync::atomic::AtomicBool = std::sync::atomic::AtomicBool::new(true);

/// Zero-sized user functions: they log through a process-wide sink (set by the fixture that registers them) because they have no fields.
pub static ZST_SINK: Mutex<Option<(Arc<Log>, Arc<FaultPlan>)>> = Mutex::new(None);

fn zst_call(name: &'static str, param: Value) -> FunctionResult {
    let sink = ZST_SINK.lock().unwrap().clone();
    let Some((log, plan)) = sink else { return Ok(Value::Vec(vec![Value::String(name.to_string()), param])) };
    let eval = CURRENT_EVAL.with(|c| c.get());
    let mut s = log.state.lock().unwrap();
    let per_eval = s.counts.entry(eval).or_default().entry(bucket(name, &param)).or_default();
    let j = match per_eval.iter_mut().find(|(n, a, _)| *n == name && same(a, &param)) {
        Some(c) => {
            c.2 += 1;
            c.2 - 1
        }
        None => {
            per_eval.push((name, param.clone(), 1));
            0
        }
    };
    let outcome = outcome_of(Kind::Tag, name, &param, plan.fails(name, &param, j), j);
    s.entries.push(Entry { eval, func: name, arg: param.clone(), outcome: outcome.clone() });
    outcome.map_err(|m| anyhow::anyhow!(m))
}

pub struct ZstA;
pub struct ZstB;

#[async_trait]
impl UserFunction for ZstA {
    async fn call(&self, param: Value) -> FunctionResult {
        zst_call("zsta", param)
    }
    fn name(&self) -> &'static str {
        "zsta"
    }
}

#[async_trait]
impl UserFunction for ZstB {
    async fn call(&self, param: Value) -> FunctionResult {
        zst_call("zstb", param)
    }
    fn name(&self) -> &'static str {
        "zstb"
    }
}

/// A function that does NOT override `cacheable()`: the trait's default (cacheable) applies.
pub struct DefaultCacheable(pub TFn);

#[async_trait]
impl UserFunction for DefaultCacheable {
    async fn call(&self, param: Value) -> FunctionResult {
        self.0.call(param).await
    }

    fn name(&self) -> &'static str {
        self.0.desc.name
    }
}

/// Model of one *ruleset evaluation*: predicts which calls reach the function (invocations) and
/// what every call returns, given the function descriptions and the fault plan.
/// bucket of a (function, argument) pair: only an index, equality is decided by `same`
pub fn bucket(name: &str, arg: &Value) -> u64 {
    crate::rng::fnv(format!("{name}|{arg:?}").as_bytes())
}

pub struct ModelHost<'a> {
    pub fns: &'a [FnDesc],
    pub symbols: &'a BTreeMap<String, Value>,
    pub plan: &'a FaultPlan,
    cache: std::collections::HashMap<u64, Vec<(&'static str, Value, Value)>>,
    /// set when a "tgoff…" function has been invoked in this evaluation: the "tg…" functions are non-cacheable from then on
    tg_off: bool,
    counts: std::collections::HashMap<u64, Vec<(&'static str, Value, usize)>>,
    /// every call site reached: (function, argument)
    pub calls: Vec<(String, Value)>,
    /// calls that must reach the function: (function, argument, outcome)
    pub invocations: Vec<(&'static str, Value, Result<Value, String>)>,
    pub cache_hits: u64,
}

impl<'a> ModelHost<'a> {
    pub fn new(fns: &'a [FnDesc], symbols: &'a BTreeMap<String, Value>, plan: &'a FaultPlan) -> Self {
        ModelHost { fns, symbols, plan, tg_off: false, cache: Default::default(), counts: Default::default(), calls: vec![], invocations: vec![], cache_hits: 0 }
    }
}

impl Host for ModelHost<'_> {
    fn symbol(&self, name: &str) -> Option<Value> {
        self.symbols.get(name).cloned()
    }

    fn call(&mut self, name: &str, arg: &Value) -> CallRes {
        let Some(d) = self.fns.iter().find(|d| d.name == name) else {
            return CallRes::Unknown;
        };
        self.calls.push((name.to_string(), arg.clone()));
        // what the function declares at the moment of this call
        let cacheable = d.cacheable && !(self.tg_off && d.name.starts_with("tg") && !d.name.starts_with("tgoff"));
        if d.name.starts_with("tgoff") {
            self.tg_off = true;
        }
        let b = bucket(d.name, arg);
        if cacheable {
            if let Some((_, _, v)) = self.cache.get(&b).and_then(|c| c.iter().find(|(n, a, _)| *n == d.name && same(a, arg))) {
                self.cache_hits += 1;
                return CallRes::Ok(v.clone());
            }
        }
        let slot = self.counts.entry(b).or_default();
        let j = match slot.iter_mut().find(|(n, a, _)| *n == d.name && same(a, arg)) {
            Some(c) => {
                c.2 += 1;
                c.2 - 1
            }
            None => {
                slot.push((d.name, arg.clone(), 1));
                0
            }
        };
        let outcome = outcome_of(d.kind, d.name, arg, self.plan.fails(d.name, arg, j), j);
        self.invocations.push((d.name, arg.clone(), outcome.clone()));
        match outcome {
            Ok(v) => {
                if cacheable {
                    self.cache.entry(b).or_default().push((d.name, arg.clone(), v.clone()));
                }
                CallRes::Ok(v)
            }
            Err(text) => CallRes::Fail(text),
        }
    }
}

/// Build the real functions for a ruleset from descriptions.
pub fn make_fns(descs: &[FnDesc], log: &Arc<Log>, plan: &Arc<FaultPlan>) -> Vec<TFn> {
    descs.iter().map(|d| TFn { desc: d.clone(), log: log.clone(), plan: plan.clone() }).collect()
}
