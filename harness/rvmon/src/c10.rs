//! C10 — names and access paths resolve to exactly the addressed data. Inputs carry a unique
//! integer id in every leaf, so a lookup that returns data from any other path is identified by
//! the id it returns. The oracle is an independent path walker.

use crate::core::{floor, guard, Ctx, Finish, Merged, Property, Tier};
use crate::evalcommon::*;
use crate::exec::block_on;
use crate::fixture::build;
use crate::instr::FaultPlan;
use crate::print::{is_plain_ident, to_text, Parens};
use crate::refeval::{classify, cls, compare, ErrExp, Exp, Obs, Pay};
use crate::rng::{fnv, Rng};
use reval::expr::{Expr, Index};
use reval::value::Value;
use serde_json::json;
use std::collections::BTreeMap;

pub const PROP: Property = Property { id: "C10", run, finish, shards: |_| 16, expect_s: |t| t.of(15, 150) };

const KEYS: [&str; 18] = ["Name", "name", "NAME", "nam", "name_", "facts", "a", "b", "if", "i5", "1", "", "na me", "näme", "a.b", "facts.a", "a.0", "name.name"];

#[derive(Clone, Debug)]
enum Step {
    Field(String),
    Idx(usize),
}

fn gen_tree(rng: &mut Rng, depth: usize, next_id: &mut i128) -> Value {
    let r = rng.below(10);
    if depth == 0 || r < 3 {
        *next_id += 1;
        return match rng.below(8) {
            0 => Value::String(format!("s{next_id}")),
            1 => Value::None,
            2 => Value::Float(*next_id as f64),
            _ => Value::Int(*next_id),
        };
    }
    if r < 7 {
        let n = 1 + rng.below(5);
        let mut m = BTreeMap::new();
        for _ in 0..n {
            let k = KEYS[rng.below(KEYS.len())];
            m.insert(k.to_string(), gen_tree(rng, depth - 1, next_id));
        }
        Value::Map(m)
    } else {
        let n = rng.below(4);
        Value::Vec((0..n).map(|_| gen_tree(rng, depth - 1, next_id)).collect())
    }
}

/// The independent walker: what a chain of steps applied to `v` must give.
fn walk_steps(mut v: Value, steps: &[Step]) -> Exp {
    for s in steps {
        v = match (&v, s) {
            (Value::None, _) => Value::None, // a step into None gives None
            (Value::Map(m), Step::Field(k)) => match m.iter().find(|(key, _)| key.as_str() == k.as_str()) {
                Some((_, x)) => x.clone(),
                None => Value::None,
            },
            (Value::Vec(xs), Step::Idx(i)) => {
                if *i < xs.len() {
                    xs[*i].clone()
                } else {
                    Value::None
                }
            }
            // a step into a scalar, or of the wrong kind for the container, is a type error
            _ => return Err(ErrExp { allowed: cls::INVALID_TYPE, pay: Pay::Any, range: false, wide: false, cell: "step".into() }),
        };
    }
    Ok(v)
}

fn resolve(facts: &Value, root: &str, steps: &[Step]) -> Exp {
    let start = if root == "facts" {
        facts.clone()
    } else {
        match facts {
            Value::Map(m) => match m.iter().find(|(k, _)| k.as_str() == root) {
                Some((_, v)) => v.clone(),
                None => return Err(ErrExp { allowed: cls::UNKNOWN_REF, pay: Pay::Name(root.to_string()), range: false, wide: false, cell: "ref".into() }),
            },
            _ => return Err(ErrExp { allowed: cls::INVALID_TYPE, pay: Pay::Any, range: false, wide: false, cell: "ref-into-non-map".into() }),
        }
    };
    walk_steps(start, steps)
}

fn to_expr(root: &str, steps: &[Step]) -> Expr {
    let mut e = Expr::reff(root);
    for s in steps {
        e = match s {
            Step::Field(k) => Expr::index(e, Index::from(k.as_str())),
            Step::Idx(i) => Expr::index(e, Index::from(*i)),
        };
    }
    e
}

fn classify_path(facts: &Value, root: &str, steps: &[Step], exp: &Exp) -> &'static str {
    match exp {
        Ok(Value::None) => "none",
        Ok(_) => "present",
        Err(e) if e.allowed == cls::UNKNOWN_REF => "unknown-top-level",
        Err(_) => {
            let _ = (facts, root, steps);
            "type-error"
        }
    }
}

fn check_path(ctx: &mut Ctx, facts: &Value, root: &str, steps: &[Step], via_text: bool) {
    let e = to_expr(root, steps);
    ctx.begin(|| format!("path\t{} on {facts:?}", show_expr(&e)));
    ctx.count();
    let exp = resolve(facts, root, steps);
    let class = classify_path(facts, root, steps, &exp);
    ctx.hit(&format!("path:{class}:len{}", steps.len()));
    ctx.nontrivial(fnv(format!("{e:?}|{facts:?}").as_bytes()));
    let obs = eval_real(&e, facts);
    if let Some(mis) = compare(&exp, &obs) {
        ctx.violation(
            format!("C10 path {mis} expected-{class}"),
            format!("path resolved to something else than the addressed data ({mis})"),
            json!({"path": show_expr(&e), "input": clip(format!("{facts:?}"), 1200), "observed": show_obs(&obs), "expected": show_exp(&exp)}),
        );
        return;
    }
    ctx.sample(&format!("path:{class}"), || json!({"path": show_expr(&e), "input": clip(format!("{facts:?}"), 300), "observed": show_obs(&obs)}));
    if via_text {
        if let Some(t) = to_text(&e, Parens::Minimal) {
            ctx.count();
            ctx.hit("path:via-text");
            match guard(|| Expr::parse(&t)) {
                Ok(Ok(parsed)) => {
                    let obs2 = eval_real(&parsed, facts);
                    if let Some(mis) = compare(&exp, &obs2) {
                        ctx.violation(format!("C10 path-via-text {mis} expected-{class}"), "the same path written as text resolves differently".to_string(), json!({"text": t, "input": clip(format!("{facts:?}"), 1200), "observed": show_obs(&obs2), "expected": show_exp(&exp)}));
                    }
                }
                other => {
                    ctx.violation(format!("C10 path-text-rejected expected-{class}"), format!("a plain access path was not parsed: {other:?}"), json!({"text": t}));
                }
            }
        }
    }
}

fn paths_for(facts: &Value, rng: &mut Rng) -> Vec<(String, Vec<Step>)> {
    // alphabet: keys that exist at any level + near misses; indices 0,1,2,len,len+1,usize::MAX
    let mut fields: Vec<String> = vec!["name".into(), "Name".into(), "NAME".into(), "nam".into(), "name_".into(), "facts".into(), "a".into(), "zzz".into()];
    let mut idxs: Vec<usize> = vec![0, 1, 2, 3, 4, usize::MAX];
    fn collect(v: &Value, f: &mut Vec<String>, ix: &mut Vec<usize>) {
        match v {
            Value::Map(m) => {
                for (k, x) in m {
                    if !f.contains(k) {
                        f.push(k.clone());
                    }
                    collect(x, f, ix);
                }
            }
            Value::Vec(xs) => {
                for n in [xs.len().wrapping_sub(1), xs.len(), xs.len() + 1] {
                    if !ix.contains(&n) {
                        ix.push(n);
                    }
                }
                for x in xs {
                    collect(x, f, ix);
                }
            }
            _ => {}
        }
    }
    collect(facts, &mut fields, &mut idxs);
    let mut steps: Vec<Step> = fields.iter().map(|f| Step::Field(f.clone())).collect();
    steps.extend(idxs.iter().map(|i| Step::Idx(*i)));
    let mut roots: Vec<String> = fields.clone();
    roots.push("facts".into());
    roots.dedup();
    let mut out = vec![];
    for r in &roots {
        out.push((r.clone(), vec![]));
        for s1 in &steps {
            out.push((r.clone(), vec![s1.clone()]));
            for s2 in &steps {
                out.push((r.clone(), vec![s1.clone(), s2.clone()]));
                // length 3: sampled (the full cube is ~20^3 per root)
                for _ in 0..2 {
                    let s3 = steps[rng.below(steps.len())].clone();
                    out.push((r.clone(), vec![s1.clone(), s2.clone(), s3]));
                }
            }
        }
    }
    out
}

/// long paths into a deep structure: every level has its own id, so a path that loses, repeats or swaps a step resolves to a different id
fn check_long_paths(ctx: &mut Ctx) {
    let depth = 220usize;
    let mut node = Value::Map([("depth".to_string(), Value::Int(depth as i128))].into_iter().collect());
    for k in (0..depth).rev() {
        let decoy = Value::Map([("depth".to_string(), Value::Int(-(k as i128) - 1)), ("n".to_string(), Value::Int(-7))].into_iter().collect());
        // the way down is the field "n"; at every third level "n" holds a list whose element 1 is the next level (the structure stays linear in size)
        let child = if k % 3 == 1 { Value::Vec(vec![Value::Int(2000 + k as i128), node, decoy.clone()]) } else { node };
        node = Value::Map([("depth".to_string(), Value::Int(k as i128)), ("n".to_string(), child), ("m".to_string(), decoy.clone()), ("xs".to_string(), Value::Vec(vec![Value::Int(1000 + k as i128), decoy]))].into_iter().collect());
    }
    let facts = node;
    let mut rng = ctx.rng.clone();
    ctx.align();
    for len in 1..=depth {
        if !ctx.mine() {
            continue;
        }
        let mut down: Vec<Step> = vec![];
        for k in 0..len {
            down.push(Step::Field("n".into()));
            if k % 3 == 1 {
                down.push(Step::Idx(1));
            }
        }
        let straight: Vec<Step> = down.iter().cloned().chain([Step::Field("depth".into())]).collect();
        let into_list: Vec<Step> = down.iter().cloned().chain([Step::Field("xs".into()), Step::Idx(0)]).collect();
        // one step replaced by a step to the decoy / one step dropped / one step doubled
        let at = rng.below(down.len());
        let mut detour = straight.clone();
        detour[at] = Step::Field("m".into());
        let mut dropped = straight.clone();
        dropped.remove(at);
        let mut doubled = straight.clone();
        doubled.insert(at, straight[at].clone());
        for (k, steps) in [straight, into_list, detour, dropped, doubled].into_iter().enumerate() {
            check_path(ctx, &facts, "facts", &steps, len % 5 == 0 && k < 2);
            // the same path starting at the top-level field instead of `facts`
            if let Some(Step::Field(first)) = steps.first() {
                check_path(ctx, &facts, first, &steps[1..], false);
            }
        }
        ctx.hit(&format!("long-path:steps{}", (len / 20) * 20));
    }
    ctx.rng = rng;
}

/// big containers: a map with thousands of keys (short, long with a shared 40-byte prefix, differing in the last byte, in case, by a
/// trailing space) and a list of 70 000 elements; every lookup must give that key's / that position's own id
fn check_big_containers(ctx: &mut Ctx) {
    let mut rng = ctx.rng.clone();
    let prefix = "a_key_with_a_rather_long_common_prefix__";
    let mut keys: Vec<String> = (0..3_000).map(|i| format!("k{i:05}")).collect();
    keys.extend((0..1_500).map(|i| format!("{prefix}{i}")));
    keys.extend((0..200).map(|i| format!("{prefix}{}", "x".repeat(i))));
    for k in ["K00001", "k00001 ", " k00001", "k0001", "k000010", "k", "", "é", "e\u{301}", "ｋ00001"] {
        keys.push(k.to_string());
    }
    let m: BTreeMap<String, Value> = keys.iter().enumerate().map(|(i, k)| (k.clone(), Value::Int(i as i128))).collect();
    let list: Vec<Value> = (0..70_000).map(|i| Value::Int(1_000_000 + i)).collect();
    let facts = Value::Map([("big".to_string(), Value::Map(m)), ("xs".to_string(), Value::Vec(list)), ("k00001".to_string(), Value::Int(-1))].into_iter().collect());
    ctx.align();
    let mut probes: Vec<String> = vec![];
    for _ in 0..ctx.tier.of(400, 4_000) {
        probes.push(keys[rng.below(keys.len())].clone());
    }
    for near in ["k03000", "k02999", "k0000", "k00000x", "a_key_with_a_rather_long_common_prefix__", "a_key_with_a_rather_long_common_prefix__1500", "a_key_with_a_rather_long_common_prefix_", "K00002", "nosuch"] {
        probes.push(near.to_string());
    }
    for k in probes {
        if !ctx.mine() {
            continue;
        }
        check_path(ctx, &facts, "big", &[Step::Field(k.clone())], false);
        check_path(ctx, &facts, "facts", &[Step::Field("big".into()), Step::Field(k)], false);
        ctx.hit("big-containers:map-lookups");
    }
    let mut idxs: Vec<usize> = vec![0, 1, 69_999, 70_000, 70_001, usize::MAX, usize::MAX - 1, 1 << 32, (1 << 32) + 5, 1 << 31, 65_535, 65_536, 65_537];
    for k in 0..17 {
        idxs.extend([(1usize << k).saturating_sub(1), 1 << k, (1 << k) + 1]);
    }
    for _ in 0..ctx.tier.of(200, 2_000) {
        idxs.push(rng.below(70_100));
    }
    for i in idxs {
        if !ctx.mine() {
            continue;
        }
        check_path(ctx, &facts, "xs", &[Step::Idx(i)], i % 3 == 0);
        ctx.hit("big-containers:list-lookups");
    }
    ctx.rng = rng;
}

/// a step of the wrong kind whose spelling coincides with a step of the right kind: a numeric step `.N` on a map that has
/// the key "N" (and its padded / signed look-alikes), a field step "N" on a list longer than N. Both are type errors;
/// neither may fall back to the look-alike entry. Also the right-kind neighbours, so that the data is known to be there.
fn check_kind_confusion(ctx: &mut Ctx) {
    let mut nums: Vec<usize> = (0..=40).collect();
    for k in 3..20 {
        nums.extend([(1usize << k) - 1, 1 << k, (1 << k) + 1]);
    }
    nums.extend([99, 100, 101, 255, 299, 300, 301, 999, 1000, 9999, 10_000, 99_999, 100_000, 1 << 31, 1 << 32, (1 << 32) + 1, usize::MAX - 1, usize::MAX]);
    nums.sort();
    nums.dedup();
    let mut m = BTreeMap::new();
    for (i, n) in nums.iter().enumerate() {
        m.insert(n.to_string(), Value::Int(5_000_000 + i as i128));
    }
    for (i, k) in ["00", "01", "007", "010", "0010", "+1", "-1", "-0", "1.0", " 1", "1 ", "1e1", "0x10", "١٠", "１０", "18446744073709551616", "340282366920938463463374607431768211455"].iter().enumerate() {
        m.insert(k.to_string(), Value::Int(6_000_000 + i as i128));
    }
    let keys: Vec<String> = m.keys().cloned().collect();
    let list: Vec<Value> = (0..300).map(|i| Value::Int(7_000_000 + i)).collect();
    let nested = Value::Map([("m".to_string(), Value::Map(m.clone())), ("xs".to_string(), Value::Vec(list.clone()))].into_iter().collect());
    let facts = Value::Map(
        [("m".to_string(), Value::Map(m)), ("xs".to_string(), Value::Vec(list)), ("in".to_string(), nested.clone()), ("row".to_string(), Value::Vec(vec![nested]))].into_iter().collect(),
    );
    ctx.align();
    for n in &nums {
        if !ctx.mine() {
            continue;
        }
        // numeric step on the map (type error), on the list (value / None)
        check_path(ctx, &facts, "m", &[Step::Idx(*n)], true);
        check_path(ctx, &facts, "facts", &[Step::Field("m".into()), Step::Idx(*n)], true);
        check_path(ctx, &facts, "in", &[Step::Field("m".into()), Step::Idx(*n)], false);
        check_path(ctx, &facts, "row", &[Step::Idx(0), Step::Field("m".into()), Step::Idx(*n)], true);
        check_path(ctx, &facts, "xs", &[Step::Idx(*n)], false);
        check_path(ctx, &facts, "m", &[Step::Idx(*n), Step::Idx(0)], false);
        ctx.hit("kind-confusion:numeric-step-on-map-with-that-key");
    }
    for k in &keys {
        if !ctx.mine() {
            continue;
        }
        // field step spelt like a number on the list (type error), on the map (the entry)
        check_path(ctx, &facts, "xs", &[Step::Field(k.clone())], false);
        check_path(ctx, &facts, "row", &[Step::Idx(0), Step::Field("xs".into()), Step::Field(k.clone())], false);
        check_path(ctx, &facts, "m", &[Step::Field(k.clone())], false);
        check_path(ctx, &facts, "in", &[Step::Field("m".into()), Step::Field(k.clone())], false);
        ctx.hit("kind-confusion:field-step-spelt-like-a-number-on-list");
    }
}

/// index steps written with leading zeros or many digits, through text only
fn check_index_spellings(ctx: &mut Ctx) {
    let list: Vec<Value> = (0..12).map(|i| Value::Int(100 + i)).collect();
    let mut m = BTreeMap::new();
    m.insert("xs".to_string(), Value::Vec(list.clone()));
    m.insert("same".to_string(), Value::Map([("same".to_string(), Value::Map([("same".to_string(), Value::Int(3))].into_iter().collect())), ("other".to_string(), Value::Int(2))].into_iter().collect()));
    let facts = Value::Map(m);
    let cases: Vec<(&str, Value)> = vec![
        ("xs.007", Value::Int(107)), ("xs.7", Value::Int(107)), ("xs.10", Value::Int(110)), ("xs.11", Value::Int(111)), ("xs.12", Value::None), ("xs.0011", Value::Int(111)),
        ("xs.00000000000000000000000000001", Value::Int(101)), ("same.same.same", Value::Int(3)), ("same.other", Value::Int(2)), ("same.same.other", Value::None),
        ("facts.same.same.same", Value::Int(3)), ("facts.xs.3", Value::Int(103)), ("[xs, xs].1.2", Value::Int(102)), ("[[i1, i2], [i3]].1.0", Value::Int(3)), ("{a: {a: i1, b: i2}}.a.b", Value::Int(2)),
    ];
    for (text, want) in cases {
        ctx.count();
        ctx.hit("path:index-spellings");
        match guard(|| Expr::parse(text)) {
            Ok(Ok(e)) => {
                let obs = eval_real(&e, &facts);
                if !matches!(&obs, Obs::Val(v) if crate::refeval::same(v, &want)) {
                    ctx.violation("C10 path-spelling", format!("{text} resolved to {} instead of {want:?}", show_obs(&obs)), json!({"text": text}));
                }
            }
            other => ctx.violation("C10 path-text-rejected spelling", format!("{text}: {other:?}"), json!({"text": text})),
        }
    }
}

/// paths that start at a symbol, while the input has a field of the same name holding different data
fn check_symbol_paths(ctx: &mut Ctx) {
    let tree = |base: i128| -> Value {
        let inner: BTreeMap<String, Value> = [("x".to_string(), Value::Int(base + 1)), ("y".to_string(), Value::Vec(vec![Value::Int(base + 2), Value::Int(base + 3)]))].into_iter().collect();
        Value::Map(inner)
    };
    let mut symbols = BTreeMap::new();
    symbols.insert("limits".to_string(), tree(9000));
    symbols.insert("only_symbol".to_string(), tree(8000));
    symbols.insert("facts".to_string(), tree(7000));
    let mut facts = BTreeMap::new();
    facts.insert("limits".to_string(), tree(1000));
    facts.insert("only_field".to_string(), tree(2000));
    let facts = Value::Map(facts);
    let idx = |e: Expr, steps: &[&str]| -> Expr {
        let mut e = e;
        for s in steps {
            e = match s.parse::<usize>() {
                Ok(i) => Expr::index(e, Index::from(i)),
                Err(_) => Expr::index(e, Index::from(*s)),
            };
        }
        e
    };
    let mut rules = vec![];
    for root in ["limits", "only_symbol", "only_field", "facts"] {
        for steps in [vec![], vec!["x"], vec!["y"], vec!["y", "1"], vec!["y", "2"], vec!["z"], vec!["x", "x"]] {
            rules.push((format!("sym :{root}.{}", steps.join(".")), idx(Expr::symbol(root), &steps)));
            rules.push((format!("ref {root}.{}", steps.join(".")), idx(Expr::reff(root), &steps)));
        }
    }
    let fx = build(&[], &symbols, &rules, FaultPlan::default());
    let pred = fx.predict(&facts);
    match fx.eval(&facts, 1) {
        Ok(res) => {
            for ((name, exp), (_, obs)) in pred.outcomes.iter().zip(res.outcomes.iter()) {
                ctx.count();
                ctx.hit("name:symbol-vs-field-paths");
                if let Some(mis) = compare(exp, obs) {
                    ctx.violation(format!("C10 symbol-path {mis}"), format!("{name}: a path starting at a symbol / field of the same name resolved to other data"), json!({"lookup": name, "observed": show_obs(obs), "expected": show_exp(exp)}));
                }
            }
        }
        Err(p) => ctx.violation("C10 name evaluation-failed", p, json!({})),
    }
}

/// every ordered pair (and some triples) of look-alike paths inside one expression: paths whose *spelling*
/// could be confused (dotted key vs two steps, key "0" vs index 0, a field called ":s" vs the symbol s)
fn check_path_pairs(ctx: &mut Ctx) {
    let m = |items: Vec<(&str, Value)>| Value::Map(items.into_iter().map(|(k, v)| (k.to_string(), v)).collect());
    let facts = m(vec![
        ("a.b", Value::Int(1)),
        ("a", m(vec![("b", Value::Int(2)), ("0", Value::Int(5)), ("b.c", Value::Int(10))])),
        ("x.a", m(vec![("b", Value::Int(3))])),
        ("x", m(vec![("a", m(vec![("b", Value::Int(4))])), ("a.b", Value::Int(11))])),
        (":s", Value::Int(6)),
        ("s", Value::Int(12)),
        ("l", Value::Vec(vec![Value::Int(7), Value::Int(8)])),
        ("facts", m(vec![("a", Value::Int(13))])),
    ]);
    let mut symbols = BTreeMap::new();
    symbols.insert("s".to_string(), Value::Int(9));
    symbols.insert("a".to_string(), m(vec![("b", Value::Int(14))]));
    // symbols whose value is none / false / 0 / "" / empty: registered all the same, and a step into a none symbol gives none
    symbols.insert("nothing".to_string(), Value::None);
    symbols.insert("off".to_string(), Value::Bool(false));
    symbols.insert("zero".to_string(), Value::Int(0));
    symbols.insert("blank".to_string(), Value::String(String::new()));
    symbols.insert("empty".to_string(), Value::Vec(vec![]));
    let f = |e: Expr, k: &str| Expr::index(e, Index::from(k));
    let i = |e: Expr, k: usize| Expr::index(e, Index::from(k));
    let paths: Vec<Expr> = vec![
        Expr::reff("a.b"), f(Expr::reff("a"), "b"), f(Expr::reff("x.a"), "b"), f(f(Expr::reff("x"), "a"), "b"), f(Expr::reff("x"), "a.b"), f(Expr::reff("a"), "b.c"),
        f(Expr::reff("a"), "0"), i(Expr::reff("a"), 0), Expr::reff(":s"), Expr::symbol("s"), Expr::reff("s"), i(Expr::reff("l"), 0), f(Expr::reff("l"), "0"), i(Expr::reff("l"), 1),
        f(f(Expr::reff("facts"), "a"), "b"), f(Expr::reff("facts"), "a.b"), f(Expr::reff("facts"), "facts"), f(Expr::symbol("a"), "b"), Expr::reff("facts"), f(f(Expr::reff("facts"), "facts"), "a"),
        Expr::symbol("nothing"), f(Expr::symbol("nothing"), "b"), i(Expr::symbol("nothing"), 0), Expr::symbol("off"), Expr::symbol("zero"), Expr::symbol("blank"), Expr::symbol("empty"), i(Expr::symbol("empty"), 0), Expr::symbol("unregistered"),
    ];
    let mut rules = vec![];
    for (pi, p) in paths.iter().enumerate() {
        for (qi, q) in paths.iter().enumerate() {
            rules.push((format!("pair {pi},{qi}"), Expr::Vec(vec![Expr::some(p.clone()), Expr::some(q.clone()), Expr::eq(p.clone(), q.clone())])));
            if (pi + qi) % 5 == 0 {
                rules.push((format!("pair-in-map {pi},{qi}"), Expr::Map([("z".to_string(), Expr::none(p.clone())), ("a".to_string(), Expr::none(q.clone()))].into_iter().collect())));
            }
        }
    }
    // `some(..)` / `none(..)` never fail on a value, but a step of the wrong kind still must: keep the raw pairs of the error-free paths too
    let fx = build(&[], &symbols, &rules, FaultPlan::default());
    let pred = fx.predict(&facts);
    match fx.eval(&facts, 1) {
        Ok(res) => {
            for ((name, exp), (_, obs)) in pred.outcomes.iter().zip(res.outcomes.iter()) {
                ctx.count();
                ctx.hit("path:look-alike-pairs");
                if let Some(mis) = compare(exp, obs) {
                    ctx.violation(format!("C10 look-alike-paths-in-one-expression {mis}"), format!("{name}: two look-alike paths inside one expression were confused"), json!({"rule": name, "observed": show_obs(obs), "expected": show_exp(exp)}));
                    return;
                }
            }
        }
        Err(p) => ctx.violation("C10 name evaluation-failed", p, json!({})),
    }
}

fn check_names(ctx: &mut Ctx, rng: &mut Rng) {
    // symbols and functions with near-miss names; lookups must hit exactly the registered name
    let names = ["Name", "name", "NAME", "nam", "name_", "facts", "a", ":name", "::name", ":a", "name:"];
    let mut symbols = BTreeMap::new();
    let mut id = 1000;
    for n in names {
        if rng.chance(2, 3) {
            id += 1;
            symbols.insert(n.to_string(), Value::Int(id));
        }
    }
    let descs = vec![
        crate::instr::FnDesc { name: "name", cacheable: false, kind: crate::instr::Kind::Tag, suspend: 0 },
        crate::instr::FnDesc { name: "Name", cacheable: true, kind: crate::instr::Kind::Tag, suspend: 0 },
        crate::instr::FnDesc { name: "nam", cacheable: true, kind: crate::instr::Kind::Tag, suspend: 0 },
    ];
    let mut rules = vec![];
    for n in names.iter().chain(["missing", "nam_", "Facts"].iter()) {
        rules.push((format!("sym-{n}"), Expr::symbol(n)));
        rules.push((format!("fn-{n}"), Expr::func(*n, Expr::value(1))));
    }
    let fx = build(&descs, &symbols, &rules, FaultPlan::default());
    let facts = Value::Int(7);
    let pred = fx.predict(&facts);
    ctx.begin(|| "names\tsymbols+functions".to_string());
    match fx.eval(&facts, 1) {
        Ok(res) => {
            for ((name, exp), (_, obs)) in pred.outcomes.iter().zip(res.outcomes.iter()) {
                ctx.count();
                ctx.nontrivial(fnv(format!("{name}|{symbols:?}").as_bytes()));
                let class = match exp {
                    Ok(_) => "resolved",
                    Err(e) if e.allowed == cls::INVALID_SYMBOL => "unknown-symbol",
                    Err(_) => "unknown-function",
                };
                ctx.hit(&format!("name:{class}"));
                if let Some(mis) = compare(exp, obs) {
                    ctx.violation(format!("C10 name {mis} expected-{class}"), format!("{name}: symbol/function lookup resolved differently"), json!({"lookup": name, "symbols": format!("{symbols:?}"), "observed": show_obs(obs), "expected": show_exp(exp)}));
                } else {
                    ctx.sample(&format!("name:{class}"), || json!({"lookup": name, "observed": show_obs(obs)}));
                }
            }
        }
        Err(p) => ctx.violation("C10 name evaluation-failed", p, json!({})),
    }
    // Expr::evaluate (no ruleset): every symbol and function is unknown and named in the error
    for n in names {
        for e in [Expr::symbol(n), Expr::func(n, Expr::value(1))] {
            ctx.count();
            let obs = match guard(|| block_on(e.evaluate(&facts))) {
                Ok(Ok(v)) => Obs::Val(v),
                Ok(Err(er)) => classify(&er),
                Err(p) => Obs::Panic(p),
            };
            let ok = matches!(&obs, Obs::Err { pay: Pay::Name(x), cls: c, .. } if x == n && (*c == cls::INVALID_SYMBOL || *c == cls::UNKNOWN_FN));
            ctx.hit("name:no-ruleset");
            if !ok {
                ctx.violation("C10 name no-ruleset-lookup", format!("lookup of {n} without a ruleset gave {}", show_obs(&obs)), json!({"expr": show_expr(&e)}));
            }
        }
    }
}

fn run(ctx: &mut Ctx) {
    let mut rng = ctx.rng.clone();
    let inputs = ctx.tier.of(40, 600);
    let mut next_id = (ctx.shard as i128) * 10_000_000;
    for i in 0..inputs {
        let facts = match i % 10 {
            0 => Value::Int(5),                // non-map input
            1 => Value::None,                  // None input
            2 => gen_tree(&mut rng, 0, &mut next_id),
            3 => Value::Vec(vec![gen_tree(&mut rng, 2, &mut next_id), gen_tree(&mut rng, 1, &mut next_id)]),
            _ => {
                // a map at the top, depth up to 3
                let mut m = BTreeMap::new();
                let n = 2 + rng.below(6);
                for _ in 0..n {
                    let k = KEYS[rng.below(KEYS.len())];
                    m.insert(k.to_string(), gen_tree(&mut rng, 3, &mut next_id));
                }
                Value::Map(m)
            }
        };
        let mut paths = paths_for(&facts, &mut rng);
        // longer random walks (4..7 steps), biased to follow existing structure
        for _ in 0..60 {
            let len = 4 + rng.below(4);
            let mut cur = facts.clone();
            let mut steps = vec![];
            for _ in 0..len {
                let s = match &cur {
                    Value::Map(m) if !m.is_empty() && rng.chance(4, 5) => Step::Field(m.keys().nth(rng.below(m.len())).unwrap().clone()),
                    Value::Vec(v) if !v.is_empty() && rng.chance(4, 5) => Step::Idx(rng.below(v.len() + 1)),
                    _ => {
                        if rng.chance(1, 2) { Step::Field(KEYS[rng.below(KEYS.len())].to_string()) } else { Step::Idx(rng.below(3)) }
                    }
                };
                cur = match walk_steps(cur.clone(), std::slice::from_ref(&s)) {
                    Ok(v) => v,
                    Err(_) => Value::None,
                };
                steps.push(s);
            }
            paths.push(("facts".to_string(), steps));
        }
        for (k, (root, steps)) in paths.iter().enumerate() {
            let textable = is_plain_ident(root) && k % 7 == 0;
            check_path(ctx, &facts, root, steps, textable);
        }
        // two (or three) paths inside ONE expression: a lookup must not be answered from another lookup
        for _ in 0..40 {
            let picks: Vec<&(String, Vec<Step>)> = (0..2 + rng.below(2)).map(|_| &paths[rng.below(paths.len())]).collect();
            let e = Expr::Vec(picks.iter().map(|(r, s)| to_expr(r, s)).collect());
            let exp: Exp = {
                let mut out = vec![];
                let mut err = None;
                for (r, s) in &picks {
                    match resolve(&facts, r, s) {
                        Ok(v) => out.push(v),
                        Err(e) => {
                            err = Some(e);
                            break;
                        }
                    }
                }
                match err {
                    Some(e) => Err(e),
                    None => Ok(Value::Vec(out)),
                }
            };
            ctx.count();
            ctx.hit("path:several-in-one-expression");
            let obs = eval_real(&e, &facts);
            if let Some(mis) = compare(&exp, &obs) {
                ctx.violation(format!("C10 several-paths-in-one-expression {mis}"), "lookups inside one expression influenced each other".to_string(), json!({"expr": show_expr(&e), "expr_debug": clip(format!("{e:?}"), 600), "input": clip(format!("{facts:?}"), 1200), "observed": show_obs(&obs), "expected": show_exp(&exp)}));
                break;
            }
        }
        check_names(ctx, &mut rng);
    }
    ctx.rng = rng.clone();
    check_long_paths(ctx);
    check_big_containers(ctx);
    check_kind_confusion(ctx);
    if ctx.shard == 0 {
        check_index_spellings(ctx);
        check_symbol_paths(ctx);
        check_path_pairs(ctx);
    }
    ctx.rng = rng;
}

fn finish(m: &Merged, tier: Tier) -> Finish {
    let mut f = Finish {
        rule: "inputs are generated trees (maps/lists/scalars, depth <= 3) whose every leaf is a unique id and whose keys include near-misses (Name/name/NAME/nam/name_, facts, keywords, literal-shaped and non-identifier keys); for each input all access paths of length <= 2 and a sample of length 3 over the input's own key/index alphabet (+ absent keys, len-1/len/len+1, usize::MAX, wrong step kind) are evaluated through constructors (and through text when expressible) and compared with an independent path walker. Plus a 220-level structure with its own id at every level and paths of 1..220 steps (straight, through lists, with one step replaced / dropped / doubled, rooted at `facts` and at the top-level field); several paths in one expression; look-alike path pairs; symbol-rooted paths incl. symbols holding none / false / 0 / empty string / []. Symbol and function lookups over near-miss names likewise. Every case is non-trivial; distinct by (path, input)".into(),
        exhaustive: false,
        exhaustive_part: "per generated input, paths of length <= 2 over that input's alphabet are complete".into(),
        ..Default::default()
    };
    for class in ["present", "none", "unknown-top-level", "type-error"] {
        let n: u64 = (0..4).map(|l| m.c(&format!("path:{class}:len{l}"))).sum();
        f.floors.push(floor(format!("paths expected {class}: {n}"), n >= tier.of(1_000, 10_000)));
    }
    f.floors.push(floor(format!("paths also evaluated via text: {}", m.c("path:via-text")), m.c("path:via-text") >= 1_000));
    for class in ["resolved", "unknown-symbol", "unknown-function", "no-ruleset"] {
        f.floors.push(floor(format!("name lookups {class}: {}", m.c(&format!("name:{class}"))), m.c(&format!("name:{class}")) >= 100));
    }
    f.floors.push(floor(format!("long-path length classes (steps / 20) seen: {}", m.prefix_count("long-path:")), m.prefix_count("long-path:") >= 11));
    f.floors.push(floor(format!("lookups in a 4700-key map / a 70 000-element list: {} / {}", m.c("big-containers:map-lookups"), m.c("big-containers:list-lookups")), m.c("big-containers:map-lookups") >= 400 && m.c("big-containers:list-lookups") >= 200));
    f.extras.insert("long_paths".into(), json!(m.prefix_map("long-path:")));
    f.floors.push(floor(
        format!("wrong-kind steps with a look-alike entry: numeric step on a map holding that key {} / numeric-looking field step on a list {}", m.c("kind-confusion:numeric-step-on-map-with-that-key"), m.c("kind-confusion:field-step-spelt-like-a-number-on-list")),
        m.c("kind-confusion:numeric-step-on-map-with-that-key") >= 90 && m.c("kind-confusion:field-step-spelt-like-a-number-on-list") >= 90,
    ));
    f.extras.insert("paths".into(), json!(m.prefix_map("path:")));
    f.extras.insert("names".into(), json!(m.prefix_map("name:")));
    f.assumptions = vec!["the walker in c10.rs (walk_steps / resolve) is the statement of C10 transcribed; map lookup there is a linear scan with exact string equality".into()];
    f
}
