//! rvmon library: monitors, oracles and generators (see /verif/DESIGN.md). The binary in main.rs drives them;
//! c18mt reuses the fixtures for the multi-threaded workload.
#![allow(dead_code)]

pub mod c01;
pub mod c02;
pub mod c03;
pub mod c04;
pub mod c05;
pub mod c06;
pub mod c07;
pub mod c08;
pub mod c09;
pub mod c10;
pub mod c11;
pub mod c12;
pub mod c13;
pub mod c14;
pub mod c15;
pub mod c16;
pub mod c17;
pub mod c18;
pub mod c19;
pub mod fixture;
pub mod core;
pub mod evalcommon;
pub mod exec;
pub mod fuzzleg;
pub mod gen;
pub mod instr;
pub mod pools;
pub mod print;
pub mod refeval;
pub mod refparse;
pub mod rng;
pub mod workload;
