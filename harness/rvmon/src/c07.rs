//! C07 — rule text is structured by one fixed precedence/associativity table: accept/reject and
//! the returned tree must agree with the reference parser E3 on every input.

use crate::core::{floor, guard, Ctx, Finish, Merged, Property, Tier};
use crate::evalcommon::clip;
use crate::gen::kind;
use crate::print::{level, Parens, Printer};
use crate::refparse::{parse_expr, Parsed, Verdict};
use crate::rng::{fnv, Rng};
use reval::expr::{Expr, Index};
use reval::value::Value;
use serde_json::json;
use std::collections::BTreeMap;

pub const PROP: Property = Property { id: "C07", run, finish, shards: |_| 16, expect_s: |t| t.of(40, 600) };

pub const ALPHABET: [&str; 31] = [
    "a", "i1", "\"s\"", "none", "0", "and", "or", "==", "<", "+", "-", "*", "%", "&", "|", "contains", "in", "!", ".", "(", ")", "[", "]", "{", "}", ",", ":", "if", "then", "else", "int",
];

pub enum Outcome {
    Agree { accepted: bool },
    /// the text is in the zone the table leaves ambiguous; `reading` says which reading the parser followed
    AgreeAmbiguous { accepted: bool, reading: &'static str },
    Mismatch { class: String, detail: String },
    Open,
}

fn root(e: &Expr) -> &'static str {
    kind(e)
}

/// Compare the real parser with E3 on one text.
pub fn compare_text(text: &str) -> Outcome {
    let real = guard(|| Expr::parse(text));
    let verdict = parse_expr(text);
    let real = match real {
        Err(p) => return Outcome::Mismatch { class: "parser-panicked".into(), detail: p },
        Ok(r) => r,
    };
    let check = |want: &Parsed<Expr>| -> Result<bool, (String, String)> {
        match (want, &real) {
            (Parsed::Open, _) => Ok(real.is_ok()),
            (Parsed::Accept(t), Ok(r)) => {
                if t == r {
                    Ok(true)
                } else {
                    Err((format!("different-tree table={} parser={}", root(t), root(r)), format!("table: {t:?}\nparser: {r:?}")))
                }
            }
            (Parsed::Accept(t), Err(e)) => Err((format!("rejected-but-table-accepts {}", root(t)), format!("table: {t:?}\nparser error: {e}"))),
            (Parsed::Reject(_), Err(_)) => Ok(false),
            (Parsed::Reject(why), Ok(r)) => Err((format!("accepted-but-table-rejects {}", root(r)), format!("table rejects ({why})\nparser: {r:?}"))),
        }
    };
    match &verdict {
        Verdict::One(Parsed::Open) => Outcome::Open,
        Verdict::One(w) => match check(w) {
            Ok(a) => Outcome::Agree { accepted: a },
            Err((class, detail)) => Outcome::Mismatch { class, detail },
        },
        Verdict::Either { pinned, plain } => match (check(pinned), check(plain)) {
            (Ok(a), Ok(_)) => Outcome::AgreeAmbiguous { accepted: a, reading: "both" },
            (Ok(a), Err(_)) => Outcome::AgreeAmbiguous { accepted: a, reading: "operands-are-access-level" },
            (Err(_), Ok(a)) => Outcome::AgreeAmbiguous { accepted: a, reading: "operands-are-unary-level" },
            (Err((class, detail)), Err(_)) => Outcome::Mismatch { class: format!("{class} (contains/in with unary operand)"), detail },
        },
    }
}

fn judge_text(ctx: &mut Ctx, text: &str, family: &str, ntok: usize) {
    ctx.begin(|| format!("{family}\t{text}"));
    ctx.count();
    ctx.hit(&format!("family:{family}"));
    match compare_text(text) {
        Outcome::Agree { accepted } => {
            if accepted {
                ctx.hit(&format!("accepted:len{ntok}"));
                ctx.nontrivial(fnv(text.as_bytes()));
                ctx.sample(&format!("accepted:{family}"), || json!({"text": text}));
            } else {
                ctx.hit(&format!("rejected:len{ntok}"));
                ctx.sample(&format!("rejected:{family}"), || json!({"text": text}));
            }
        }
        Outcome::AgreeAmbiguous { accepted, reading } => {
            ctx.hit(if accepted { "ambiguous-zone:accepted" } else { "ambiguous-zone:rejected" });
            ctx.hit(&format!("ambiguous-reading:{reading}"));
            ctx.sample(&format!("ambiguous-reading:{reading}"), || json!({"text": text, "accepted": accepted}));
        }
        Outcome::Open => ctx.hit("open-form-skipped"),
        Outcome::Mismatch { class, detail } => {
            ctx.violation(format!("C07 {class}"), format!("parser and precedence table disagree on: {}", clip(text.to_string(), 200)), json!({"text": text, "detail": clip(detail, 1500)}));
        }
    }
}

fn sequences(ctx: &mut Ctx, max_len: usize) {
    let n = ALPHABET.len();
    for len in 1..=max_len {
        let total = n.pow(len as u32);
        for code in 0..total {
            if !ctx.mine() {
                continue;
            }
            let mut c = code;
            let mut parts = Vec::with_capacity(len);
            for _ in 0..len {
                parts.push(ALPHABET[c % n]);
                c /= n;
            }
            let text = parts.join(" ");
            judge_text(ctx, &text, "token-sequences", len);
        }
    }
}

/// long texts: chains of 600 and 3000 operators at every binary level, 600-700 levels of every kind of nesting — the grammar derives
/// them whatever their length, and the tree is still the table's
fn long_texts(ctx: &mut Ctx) {
    let mut texts: Vec<(String, usize)> = vec![];
    for op in ["+", "-", "*", "/", "%", "&", "|", "^", "and", "or", "==", "!=", "<", ">=", "="] {
        for n in [520usize, 3_000] {
            texts.push((format!("a{}", format!(" {op} a").repeat(n)), 2 * n + 1));
        }
    }
    for n in [300usize, 520, 700] {
        texts.push((format!("{}a", "-".repeat(n)), n + 1));
        texts.push((format!("{}a", "!".repeat(n)), n + 1));
        texts.push((format!("{}a{}", "(".repeat(n), ")".repeat(n)), 2 * n + 1));
        texts.push((format!("{}a{}", "[".repeat(n), "]".repeat(n)), 2 * n + 1));
        texts.push((format!("{}a{}", "{k: ".repeat(n), "}".repeat(n)), 4 * n + 1));
        texts.push((format!("a{}", ".b.0".repeat(n)), 4 * n + 1));
        texts.push((format!("{}a{}", "f(".repeat(n), ")".repeat(n)), 3 * n + 1));
        texts.push((format!("{}a{}", "int(".repeat(n), ")".repeat(n)), 3 * n + 1));
        texts.push((format!("{}a", "if a then a else ".repeat(n)), 5 * n + 1));
        texts.push((format!("{}a{}", "if ".repeat(n), " then a else a".repeat(n)), 5 * n + 1));
        texts.push((format!("{}a{}", "a + (".repeat(n), ")".repeat(n)), 4 * n + 1));
        texts.push((format!("{}a{}", "(a contains ".repeat(n), ")".repeat(n)), 4 * n + 1));
        texts.push((format!("[{}a]", "a, ".repeat(n * 20)), 40 * n + 3));
        texts.push((format!("{{{}z: a}}", (0..n * 5).map(|i| format!("k{i}: a, ")).collect::<String>()), 20 * n + 5));
    }
    // map literals of 2 .. 1000 items in which one key occurs twice (or three times) with different values, at every distance: the later item wins
    for n in [2usize, 3, 8, 16, 20, 21, 32, 33, 34, 48, 64, 65, 100, 257, 1_000] {
        for (first, second) in [(0usize, 1usize), (0, n / 2), (0, n - 1), (n / 3, n - 1), (n / 2, n / 2 + 1), (1, n - 2)] {
            if first >= second || second >= n {
                continue;
            }
            let items: Vec<String> = (0..n).map(|i| if i == first || i == second { format!("dup: i{i}") } else if i % 10 == 9 { format!("dup2: i{i}") } else { format!("k{i:03}: i{i}") }).collect();
            texts.push((format!("{{{}}}", items.join(", ")), 9));
            let shuffled: Vec<String> = (0..n).rev().map(|i| if i == first || i == second { format!("dup: \"v{i}\"") } else { format!("z{:03}: i{i}", (i * 7) % n) }).collect();
            texts.push((format!("{{{},}}", shuffled.join(", ")), 9));
        }
    }
    ctx.align();
    for (t, ntok) in texts {
        if !ctx.mine() {
            continue;
        }
        judge_text(ctx, &t, "long-texts", ntok.min(9));
    }
}

/// longer sequences that the bounded enumeration cannot reach: chained contains/in, nested if, …
fn directed(ctx: &mut Ctx) {
    let texts = [
        "a contains a contains a", "a in a in a", "a in a contains a", "a contains a in a", "(a contains a) contains a", "a contains (a in a)",
        "a contains a & a", "a & a contains a", "a & a contains a & a", "a contains a == a", "a == a contains a", "-a contains a", "a contains -a", "!a in a", "a in !a", "-(a contains a)", "- - a", "! ! a", "- ! - a",
        "if a then a else a", "if if a then a else a then a else a", "if a then if a then a else a else a", "if a then a else if a then a else a", "a + if a then a else a", "(if a then a else a) + a",
        "if a then a else a + a", "if a and a then a or a else a == a", "if a then a", "if a then a else", "a if a then a else a",
        "a and a or a and a", "a or a and a or a", "a == a < a == a", "a < a == a < a", "a + a - a + a", "a - a + a - a", "a * a % a * a", "a % a * a % a", "a & a | a & a", "a | a & a | a",
        "a or a == a + a * a & a", "a & a * a + a == a or a", "a + a * a", "a * a + a", "a == a and a", "a and a == a", "a & a + a", "a + a & a", "a * a & a", "a & a * a", "- a . b", "- a . 0", "! a . b . c",
        "a . b . 0 . c", "a . 0 . 1", "a . b ( a )", "a ( a ) . b", "( a ) . b", "[ a ] . 0", "{ a : a } . a", "\"s\" . a", "i1 . 0", "none . a", "none ( a ) . a", ": a . b", ": a ( a )",
        "a ( a , a )", "a ( )", "int ( a , a )", "int ( )", "int a", "int", "some ( a )", "is_some ( a )", "none ( a )", "is_none ( a )", "none", "none ( none )", "some ( none ( none ) )",
        "[ a , a , ]", "[ a , , a ]", "[ , ]", "[ , a ]", "[ ]", "[ [ ] , [ a ] ]", "{ }", "{ a : a , }", "{ a : a , a : i1 }", "{ , }", "{ a }", "{ a : }", "{ i1 : a }", "{ \"s\" : a }", "{ if : a }", "{ a : a b : a }",
        "( )", "( a", "a )", "( ( a ) )", "( a ) ( a )", "a a", "a i1", "i1 a", "a = a", "a == a = a", "a = = a", "a ! = a", "a != a", "a > = a", "a >= a", "a <= a", "a < = a", "a <> a", "a => a", "a ! a", "a - - a", "a - ! a",
        "a + + a", "a * - a", "a & - a", "a and ! a", "a and - a", "! a and a", "a == - a", "- a == a", "- a + a", "a + - a * a", "a . - b", "a . ( b )", "a . \"s\"", "a . i1", "a . 0x1", "a . 00", "a . 1 . b",
        "date_time ( a )", "datetime ( a )", "to_upper ( a )", "uppercase ( a )", "to_lower ( a )", "lowercase ( a )", "duration ( a )", "trim ( a )", "round ( a )", "floor ( a )", "fract ( a )",
        "year ( a )", "month ( a )", "week ( a )", "day ( a )", "hour ( a )", "minute ( a )", "second ( a )", "float ( a )", "dec ( a )", "true", "false", "true ( a )", "false and true", "then", "else a", "and a", "a and", "a or or a",
        // list indexes are usize: every digit string that fits is accepted with its exact value, leading zeros included
        "a . 4294967295", "a . 4294967296", "a . 4294967297", "a . 65536", "a . 2147483648", "a . 18446744073709551615", "a . 18446744073709551616", "a . 99999999999999999999999", "a . b . 0000018446744073709551615 . c",
        "a . 0000000000000000000000000000000000000001", "a . 9223372036854775808", "[ a ] . 4294967296", "a ( a ) . 4294967296 . 0", ": a . 4294967296", "a . 1 . 4294967296 . b . 8589934592",
        "@ a : a ; a", "a ; a", "a @ a", ": : a", ": i1", ": if", ": a : a", "a : a", "[ a : a ]", "{ a : a : a }",
    ];
    for t in texts {
        if !ctx.mine() {
            continue;
        }
        let ntok = t.split(' ').count();
        judge_text(ctx, t, "directed", ntok);
        // the same with layout removed wherever two neighbours cannot fuse (checked by re-lexing)
        let dense: String = t.split(' ').collect::<Vec<_>>().join("");
        if crate::refparse::lex(&dense).ok() == crate::refparse::lex(t).ok() {
            judge_text(ctx, &dense, "directed-dense", ntok);
        }
    }
}

/// Every ordered pair of binary operators (and the unary ones in front of either operand) in every syntactic position an
/// expression can occupy: item k of n in a list / map (with and without the trailing comma), call argument, branch of an
/// if, operand of a parenthesised access step. The table does not know positions, so the grouping must be the same in all.
fn operator_pairs_in_contexts(ctx: &mut Ctx) {
    let ops = ["or", "and", "==", "!=", "<", "<=", ">", ">=", "contains", "in", "|", "^", "&", "+", "-", "*", "/", "%", "="];
    let contexts = [
        "§", "( § )", "[ § ]", "[ § , ]", "[ a , § ]", "[ a , b , § ]", "[ a , b , § , ]", "[ § , a ]", "[ a , § , b ]", "[ a , b , c , § ]",
        "{ k : § }", "{ k : § , }", "{ k : a , m : § }", "{ k : a , m : § , }", "{ k : a , m : b , n : § }", "{ k : a , m : b , n : § , }", "{ k : § , m : a , n : b }", "{ k : a , m : § , n : b }",
        "{ k : a , m : b , n : c , o : § }", "{ k : a , m : b , n : c , o : d , p : § }", "g ( § )", "g ( a , § )", "g ( a , b , § )", "g ( § , a )", "int ( § )", "some ( § )", "none ( § )", "is_none ( § )", "year ( § )",
        "if § then a else b", "if a then § else b", "if a then b else §", "( § ) . k", "( § ) . 0", "- ( § )", "! ( § )", "[ { k : [ § ] } ]", "{ k : [ a , { m : § } ] }", "a + ( § ) * b", "g ( [ a , § ] , { k : § } )",
    ];
    let mut holes: Vec<String> = vec![];
    for o1 in ops {
        for o2 in ops {
            holes.push(format!("x {o1} y {o2} z"));
        }
        holes.push(format!("- x {o1} y"));
        holes.push(format!("x {o1} - y"));
        holes.push(format!("! x {o1} y"));
        holes.push(format!("x {o1} ! y"));
        holes.push(format!("x . k {o1} y . 0"));
    }
    // operator triples at the top level, the last (or first) operand being an access path / call / parenthesised term
    ctx.align();
    for o1 in ops {
        for o2 in ops {
            for o3 in ops {
                if !ctx.mine() {
                    continue;
                }
                for (a, d) in [("x", "w"), ("x", "w . k"), ("x . 0", "w"), ("x", "w . 3"), ("g ( x )", "( w )")] {
                    let text = format!("{a} {o1} y {o2} z {o3} {d}");
                    judge_text(ctx, &text, "operator-triple", 7);
                }
            }
        }
    }
    ctx.align();
    for (ci, c) in contexts.iter().enumerate() {
        for h in &holes {
            if !ctx.mine() {
                continue;
            }
            let text = c.replace('§', h);
            let ntok = text.split(' ').count();
            judge_text(ctx, &text, "operator-pair-in-position", ntok);
            ctx.hit(&format!("position:{ci}"));
        }
    }
}

// ---- trees in the parser's image, rendered three ways -----------------------------------------

fn leaf(k: usize) -> Expr {
    match k % 4 {
        0 => Expr::Reference("a".into()),
        1 => Expr::Value(Value::Int(1)),
        2 => Expr::Reference("b".into()),
        _ => Expr::Value(Value::String("s".into())),
    }
}

type Bin = fn(Box<Expr>, Box<Expr>) -> Expr;
const BINS: [(&str, Bin); 17] = [
    ("and", Expr::And), ("or", Expr::Or), ("eq", Expr::Equals), ("neq", Expr::NotEquals), ("gt", Expr::GreaterThan), ("gte", Expr::GreaterThanEquals), ("lt", Expr::LessThan),
    ("lte", Expr::LessThanEquals), ("add", Expr::Add), ("sub", Expr::Sub), ("mult", Expr::Mult), ("div", Expr::Div), ("rem", Expr::Rem), ("bitand", Expr::BitAnd), ("bitor", Expr::BitOr),
    ("bitxor", Expr::BitXor), ("contains", Expr::Contains),
];

/// node shapes used to build image trees: index into this list + children
fn shapes() -> Vec<(&'static str, usize)> {
    let mut v: Vec<(&'static str, usize)> = BINS.iter().map(|(n, _)| (*n, 2)).collect();
    v.extend([("if", 3), ("neg", 1), ("not", 1), ("field", 1), ("index", 1), ("call", 1), ("int", 1), ("some", 1), ("list", 2), ("map", 2), ("symbol-field", 0)]);
    v
}

fn build(shape: &str, mut cs: Vec<Expr>) -> Expr {
    let mut next = || Box::new(cs.remove(0));
    if let Some((_, ctor)) = BINS.iter().find(|(n, _)| *n == shape) {
        let a = next();
        let b = next();
        return ctor(a, b);
    }
    match shape {
        "if" => {
            let (a, b, c) = (next(), next(), next());
            Expr::If(a, b, c)
        }
        "neg" => Expr::Neg(next()),
        "not" => Expr::Not(next()),
        "field" => Expr::Index(next(), Index::Map("k".into())),
        "index" => Expr::Index(next(), Index::Vec(2)),
        "call" => Expr::Function("fun".into(), next()),
        "int" => Expr::Int(next()),
        "some" => Expr::Some(next()),
        "list" => Expr::Vec(vec![*next(), *next()]),
        "map" => {
            let mut m = BTreeMap::new();
            m.insert("x".to_string(), *next());
            m.insert("y".to_string(), *next());
            Expr::Map(m)
        }
        "symbol-field" => Expr::Index(Box::new(Expr::Symbol("sym".into())), Index::Map("k".into())),
        _ => unreachable!(),
    }
}

/// Is this tree in the image of the parser? (The pinned grammar cannot produce Neg of a negative
/// literal from "-i-1"? it can; but it cannot produce a tree that the printer cannot express.)
fn judge_tree(ctx: &mut Ctx, tree: &Expr, rng: &mut Rng, family: &str) {
    // parent/child level pairs met
    crate::gen::walk(tree, &mut |n| {
        for (slot, c) in crate::gen::children(n).into_iter().enumerate() {
            ctx.hit(&format!("pair:{}>{}@{}", level(n), level(c), slot.min(1)));
        }
    });
    for style in [Parens::Minimal, Parens::Full, Parens::Random] {
        let text = {
            let mut p = Printer { parens: style, rng: if style == Parens::Random { Some(rng) } else { None }, alt_spellings: style == Parens::Random };
            match p.print(tree) {
                Some(t) => t,
                None => {
                    ctx.hit("tree-not-printable");
                    return;
                }
            }
        };
        ctx.begin(|| format!("{family}\t{text}"));
        ctx.count();
        ctx.hit(&format!("family:{family}-{style:?}"));
        // harness self-check: E3 must read its own printer's output back as the tree
        match parse_expr(&text) {
            Verdict::One(Parsed::Accept(t)) if &t == tree => {}
            _ => {
                ctx.hit("selfcheck:printer-and-reference-parser-disagree");
                ctx.sample("selfcheck-failure", || json!({"text": text, "tree": format!("{tree:?}")}));
                continue;
            }
        }
        match guard(|| Expr::parse(&text)) {
            Ok(Ok(parsed)) if &parsed == tree => {
                ctx.nontrivial(fnv(text.as_bytes()));
                ctx.sample(&format!("tree:{style:?}"), || json!({"text": text}));
            }
            Ok(Ok(parsed)) => ctx.violation(
                format!("C07 rendering-parsed-to-different-tree {} ({style:?} parentheses)", kind(tree)),
                "parentheses / precedence: the text of a tree did not parse back to that tree".to_string(),
                json!({"text": text, "tree": clip(format!("{tree:?}"), 1200), "parsed": clip(format!("{parsed:?}"), 1200)}),
            ),
            Ok(Err(e)) => ctx.violation(format!("C07 rendering-rejected {} ({style:?} parentheses)", kind(tree)), "valid text rejected".to_string(), json!({"text": text, "error": e.to_string()})),
            Err(p) => ctx.violation(format!("C07 parser-panicked {}", kind(tree)), p, json!({"text": text})),
        }
    }
}

fn trees(ctx: &mut Ctx) {
    let sh = shapes();
    let mut rng = ctx.rng.clone();
    // depth 2 exhaustive: every shape in every child position of every shape
    for (outer, oar) in &sh {
        for pos in 0..(*oar).max(1) {
            for (inner, iar) in &sh {
                if !ctx.mine() {
                    continue;
                }
                if *oar == 0 {
                    continue;
                }
                let mut k = 0;
                let mut cs = vec![];
                for p in 0..*oar {
                    if p == pos {
                        let ics = (0..*iar).map(|j| leaf(k + j)).collect();
                        cs.push(build(inner, ics));
                    } else {
                        cs.push(leaf(k));
                    }
                    k += 1;
                }
                let t = build(outer, cs);
                judge_tree(ctx, &t, &mut rng, "depth2");
            }
        }
    }
    // depth 3: every (outer, middle, inner) chain down the left and down the right spine
    for (outer, oar) in &sh {
        for (mid, mar) in &sh {
            for (inner, iar) in &sh {
                if *oar == 0 || *mar == 0 {
                    continue;
                }
                for side in 0..2 {
                    if !ctx.mine() {
                        continue;
                    }
                    let pick = |ar: usize| if side == 0 { 0 } else { ar - 1 };
                    let ics = (0..*iar).map(leaf).collect();
                    let i = build(inner, ics);
                    let mut mcs: Vec<Expr> = (0..*mar).map(|j| leaf(j + 1)).collect();
                    mcs[pick(*mar)] = i;
                    let m = build(mid, mcs);
                    let mut ocs: Vec<Expr> = (0..*oar).map(|j| leaf(j + 2)).collect();
                    ocs[pick(*oar)] = m;
                    let t = build(outer, ocs);
                    judge_tree(ctx, &t, &mut rng, "depth3-spine");
                }
            }
        }
    }
    // random trees to depth 5
    let n = ctx.tier.of(1_500, 30_000);
    for _ in 0..n {
        let d = 3 + rng.below(3);
        let t = random_tree(&mut rng, &sh, d);
        judge_tree(ctx, &t, &mut rng, "random");
    }
    ctx.rng = rng;
}

fn random_tree(rng: &mut Rng, sh: &[(&'static str, usize)], depth: usize) -> Expr {
    if depth == 0 || rng.chance(1, 6) {
        return leaf(rng.below(4));
    }
    let (s, ar) = sh[rng.below(sh.len())];
    let cs = (0..ar).map(|_| random_tree(rng, sh, depth - 1)).collect();
    build(s, cs)
}

fn run(ctx: &mut Ctx) {
    directed(ctx);
    operator_pairs_in_contexts(ctx);
    long_texts(ctx);
    trees(ctx);
    sequences(ctx, ctx.tier.of(4, 5));
}

fn finish(m: &Merged, tier: Tier) -> Finish {
    let accepted: u64 = (1..=5).map(|l| m.c(&format!("accepted:len{l}"))).sum();
    let rejected: u64 = (1..=5).map(|l| m.c(&format!("rejected:len{l}"))).sum();
    let mut f = Finish {
        rule: "every text is parsed by Expr::parse and by the reference lexer + precedence-climbing parser E3; accept/reject must agree and accepted trees must be equal. Texts: all token sequences up to the length bound over a 31-symbol alphabet (one or two representatives per token class and per precedence level), a directed list of longer sequences (chained contains/in, nested if, alternative spellings, malformed brackets), and every tree of the image up to depth 3 along both spines rendered with minimal, full and random redundant parentheses (and alternative spellings). Non-trivial = accepted texts; distinct by text".into(),
        exhaustive: true,
        exhaustive_part: format!("all token sequences of length <= {} over the alphabet ({} texts); all depth-2 shape pairs and depth-3 spines", tier.of(4, 5), tier.of("954,304", "29,583,455")),
        ..Default::default()
    };
    // every ordered pair of precedence levels as parent/child, on both sides
    let mut pairs = 0;
    let mut missing = vec![];
    for p in 0..=8u8 {
        for c in 0..=9u8 {
            for side in 0..2 {
                // parents: if(0) .. index(8); unary and index have a single slot
                if (p == 7 || p == 8) && side == 1 {
                    continue;
                }
                if m.c(&format!("pair:{p}>{c}@{side}")) > 0 {
                    pairs += 1;
                } else {
                    missing.push(format!("{p}>{c}@{side}"));
                }
            }
        }
    }
    f.floors.push(floor(format!("parent/child precedence-level pairs met on each side: {pairs} (missing: {})", missing.join(" ")), missing.is_empty()));
    f.floors.push(floor(format!("accepted {accepted} / rejected {rejected} enumerated sequences (floor: 1000 accepted, and some accepted at every length)"), accepted >= 1000 && (1..=4).all(|l| m.c(&format!("accepted:len{l}")) > 0)));
    f.floors.push(floor(format!("operator triples with plain / access / call operands at the ends: {}", m.c("family:operator-triple")), m.c("family:operator-triple") >= 30_000));
    f.floors.push(floor(format!("operator pairs in syntactic positions: {} texts over {} positions", m.c("family:operator-pair-in-position"), m.prefix_count("position:")), m.c("family:operator-pair-in-position") >= 15_000 && m.prefix_count("position:") >= 40));
    f.floors.push(floor(format!("harness self-check failures: {}", m.c("selfcheck:printer-and-reference-parser-disagree")), m.c("selfcheck:printer-and-reference-parser-disagree") == 0));
    // the one ambiguity of the table (a unary operator directly in a contains/in operand position) may be
    // resolved either way, but in ONE way: a parser that follows both readings on different inputs
    // has no fixed table
    let (a, b) = (m.c("ambiguous-reading:operands-are-access-level"), m.c("ambiguous-reading:operands-are-unary-level"));
    if a > 0 && b > 0 {
        let ex = |k: &str| m.samples.get(k).cloned().unwrap_or_default();
        f.violations.push(crate::core::Violation {
            sig: "C07 contains/in with a unary operand is read in two different ways".into(),
            what: format!("{a} texts follow the reading 'contains/in takes access-level operands' (unary operand rejected) and {b} follow 'unary-level operands' (accepted): not one fixed table"),
            case: json!({"rejecting_examples": ex("ambiguous-reading:operands-are-access-level"), "accepting_examples": ex("ambiguous-reading:operands-are-unary-level")}),
            count: a.min(b),
        });
    }
    f.extras.insert("ambiguous_zone".into(), json!({"followed_access_level_reading": a, "followed_unary_level_reading": b}));
    f.extras.insert("sequences_accepted_by_length".into(), json!(m.prefix_map("accepted:")));
    f.extras.insert("sequences_rejected_by_length".into(), json!(m.prefix_map("rejected:")));
    f.extras.insert("families".into(), json!(m.prefix_map("family:")));
    f.extras.insert("level_pairs_met".into(), json!(pairs));
    f.assumptions = vec![
        "E3 (refparse.rs) is the table of C07 plus the pinned choices listed in DESIGN.md (if only at the loosest level / inside brackets, one trailing comma, identifier-only keys and names); on `contains/in` with a unary operand the table is ambiguous and the oracle accepts rejection or the plain-table tree".into(),
        "string forms the statements leave open (unterminated \\u{, sign inside \\u{}) are skipped".into(),
    ];
    if tier == Tier::Thorough {
        crate::fuzzleg::attach(&mut f, "C07", 150);
    }
    f
}
