//! C08 — literals denote exactly what is written; keywords only on exact match; layout and
//! comments between tokens never change the parsed tree. The generator starts from the *value*
//! and writes the text itself, so the expected denotation is known without parsing.

use crate::c07::{compare_text, Outcome};
use crate::core::{floor, guard, Ctx, Finish, Merged, Property, Tier};
use crate::evalcommon::clip;
use crate::gen::{std_facts, Gen, GenCfg};
use crate::pools::pool;
use crate::print::{to_text_random, KEYWORDS};
use crate::refeval::same;
use crate::refparse::lex_spans;
use crate::rng::{fnv, Rng};
use reval::expr::Expr;
use reval::value::Value;
use rust_decimal::Decimal;
use serde_json::json;

pub const PROP: Property = Property { id: "C08", run, finish, shards: |_| 16, expect_s: |t| t.of(45, 500) };

enum Want {
    Val(Value),
    Reject,
    /// the word is not a literal at all: it must lex as one identifier
    Ident,
}

fn check_literal(ctx: &mut Ctx, text: &str, want: &Want, family: &str) {
    ctx.begin(|| format!("{family}\t{text}"));
    ctx.count();
    ctx.hit(&format!("family:{family}"));
    ctx.nontrivial(fnv(text.as_bytes()));
    let got = guard(|| Expr::parse(text));
    let bad = |ctx: &mut Ctx, what: String| {
        ctx.violation(format!("C08 {family}"), what, json!({"text": clip(text.to_string(), 400), "expected": match want { Want::Val(v) => clip(format!("{v:?}"), 300), Want::Reject => "parse error".into(), Want::Ident => "an identifier".into() }}));
    };
    match (want, got) {
        (_, Err(p)) => bad(ctx, format!("parser panicked: {p}")),
        (Want::Val(v), Ok(Ok(Expr::Value(g)))) => {
            if same(v, &g) {
                ctx.sample(family, || json!({"text": clip(text.to_string(), 120), "denotes": clip(format!("{g:?}"), 120)}));
            } else {
                bad(ctx, format!("literal denotes {} instead", clip(format!("{g:?}"), 300)));
            }
        }
        (Want::Val(_), Ok(Ok(other))) => bad(ctx, format!("parsed to a non-literal node {}", clip(format!("{other:?}"), 200))),
        (Want::Val(_), Ok(Err(e))) => bad(ctx, format!("rejected: {}", clip(e.to_string(), 200))),
        (Want::Ident, Ok(Ok(Expr::Reference(n)))) if n == text => ctx.sample(family, || json!({"text": text, "identifier": true})),
        (Want::Ident, Ok(other)) => bad(ctx, format!("expected one identifier, got {}", clip(format!("{other:?}"), 200))),
        (Want::Reject, Ok(Ok(t))) => bad(ctx, format!("accepted as {}", clip(format!("{t:?}"), 200))),
        (Want::Reject, Ok(Err(_))) => ctx.sample(family, || json!({"text": clip(text.to_string(), 120), "rejected": true})),
    }
}

fn int_values(rng: &mut Rng, n: usize) -> Vec<i128> {
    let mut v = crate::pools::ints();
    for _ in 0..n {
        let bits = 1 + rng.below(127);
        let mask = if bits >= 127 { i128::MAX } else { (1i128 << bits) - 1 };
        let x = rng.i128() & mask;
        v.push(x);
        v.push(-x);
    }
    for sh in 0..127 {
        v.push(1i128 << sh);
        v.push((1i128 << sh) - 1);
        v.push(-(1i128 << sh));
    }
    v
}

fn ints(ctx: &mut Ctx, n: usize) {
    ctx.align();
    let mut rng = ctx.rng.clone();
    for v in int_values(&mut rng, n) {
        if !ctx.mine() {
            continue;
        }
        let want = Want::Val(Value::Int(v));
        check_literal(ctx, &format!("i{v}"), &want, "int-decimal");
        let z = "0".repeat(1 + rng.below(40));
        if v >= 0 {
            check_literal(ctx, &format!("i+{v}"), &want, "int-decimal-plus");
            check_literal(ctx, &format!("i{z}{v}"), &want, "int-decimal-leading-zeros");
            check_literal(ctx, &format!("0x{v:x}"), &want, "int-hex");
            check_literal(ctx, &format!("0x{v:X}"), &want, "int-hex-upper");
            check_literal(ctx, &format!("0x{z}{v:x}"), &want, "int-hex-leading-zeros");
            check_literal(ctx, &format!("0o{v:o}"), &want, "int-octal");
            check_literal(ctx, &format!("0b{v:b}"), &want, "int-binary");
            check_literal(ctx, &format!("0b{z}{v:b}"), &want, "int-binary-leading-zeros");
        } else {
            check_literal(ctx, &format!("i-{z}{}", v.unsigned_abs()), &want, "int-decimal-leading-zeros");
        }
    }
    if ctx.mine() {
        // just outside the range
        for t in ["i170141183460469231731687303715884105728", "i-170141183460469231731687303715884105729", "i+170141183460469231731687303715884105728", "0x80000000000000000000000000000000", "0xffffffffffffffffffffffffffffffff",
            "0o2000000000000000000000000000000000000000000", "0o8", "0o78", &format!("0b1{}", "0".repeat(127))]
        {
            check_literal(ctx, t, &Want::Reject, "int-out-of-range");
        }
        check_literal(ctx, "i-0", &Want::Val(Value::Int(0)), "int-decimal");
        check_literal(ctx, "i-170141183460469231731687303715884105728", &Want::Val(Value::Int(i128::MIN)), "int-decimal");
        check_literal(ctx, "0x7fffffffffffffffffffffffffffffff", &Want::Val(Value::Int(i128::MAX)), "int-hex");
        check_literal(ctx, "0X10", &Want::Reject, "int-prefix-case");
        check_literal(ctx, "I10", &Want::Ident, "int-prefix-case-is-identifier");
    }
    ctx.rng = rng;
}

fn float_bits(rng: &mut Rng, n: usize) -> Vec<u64> {
    let mut v: Vec<u64> = crate::pools::floats().into_iter().filter(|f| f.is_finite()).map(|f| f.to_bits()).collect();
    for _ in 0..n {
        let b = rng.next();
        if f64::from_bits(b).is_finite() {
            v.push(b);
        }
        // moderate exponents
        let m = rng.next() & ((1 << 52) - 1);
        let e = (1023 - 70 + rng.below(140)) as u64;
        v.push((e << 52) | m);
        v.push(((e << 52) | m) | (1 << 63));
        // subnormals
        v.push(rng.next() & ((1 << 52) - 1));
    }
    v
}

fn floats(ctx: &mut Ctx, n: usize) {
    ctx.align();
    let mut rng = ctx.rng.clone();
    // the boundary values are partitioned across shards; the random tail is this shard's own
    let pool_len = crate::pools::floats().into_iter().filter(|f| f.is_finite()).count();
    for (i, bits) in float_bits(&mut rng, n / 16 + 1).into_iter().enumerate() {
        if i < pool_len && !ctx.mine() {
            continue;
        }
        let f = f64::from_bits(bits);
        let want = Want::Val(Value::Float(f));
        let shortest = format!("{f}");
        check_literal(ctx, &format!("f{shortest}"), &want, "float-shortest");
        let sci = format!("{f:e}");
        check_literal(ctx, &format!("f{sci}"), &want, "float-scientific");
        check_literal(ctx, &format!("f{}", sci.replace('e', "E")), &want, "float-scientific-upper");
        if !sci.contains("e-") {
            check_literal(ctx, &format!("f{}", sci.replace('e', "e+")), &want, "float-scientific-plus");
        }
        // exact decimal expansion: every finite double has one (at most 1074 fractional digits)
        if f.abs() < 1e30 && (f == 0.0 || f.abs() > 1e-40) {
            let exact = format!("{f:.120}");
            let exact = exact.trim_end_matches('0');
            let exact = if exact.ends_with('.') { format!("{exact}0") } else { exact.to_string() };
            // only exact if we did not cut digits: re-check by parsing with std
            if exact.parse::<f64>().map(|x| x.to_bits()) == Ok(bits) {
                check_literal(ctx, &format!("f{exact}"), &want, "float-exact-expansion");
            }
        }
        if f.abs() < 1.0 && f != 0.0 && shortest.starts_with("0.") {
            check_literal(ctx, &format!("f{}", &shortest[1..]), &want, "float-no-leading-digit");
            check_literal(ctx, &format!("f+{}", &shortest[1..]), &want, "float-no-leading-digit-signed");
        }
        if f.abs() < 1.0 && f != 0.0 && shortest.starts_with("-0.") {
            check_literal(ctx, &format!("f-{}", &shortest[2..]), &want, "float-no-leading-digit-signed");
        }
        if f > 0.0 {
            check_literal(ctx, &format!("f+{shortest}"), &want, "float-plus-sign");
        }
        // the exponent is a digit string of any length: zero padding does not change the value
        if let Some((mant, exp)) = sci.split_once('e') {
            let (esign, edigits) = match exp.strip_prefix('-') { Some(d) => ("-", d), None => ("", exp) };
            let pad = "0".repeat(1 + rng.below(24));
            check_literal(ctx, &format!("f{mant}e{esign}{pad}{edigits}"), &want, "float-exponent-zero-padded");
            check_literal(ctx, &format!("f{mant}E{esign}000{edigits}"), &want, "float-exponent-zero-padded");
        }
    }
    // short mantissas with every exponent: f<m>e<k> (what a person writes; the shortest / exact forms above have 16-17 digits)
    {
        let mut ms: Vec<u64> = (1..=120).collect();
        for _ in 0..ctx.tier.of(200, 2_000) {
            let digits = 1 + rng.below(17);
            ms.push(rng.next() % 10u64.pow(digits as u32).max(2));
        }
        ms.extend([602_214_076, 299_792_458, 123_456_789_012_345, 999_999_999_999_999, 9_007_199_254_740_993, 1_000_000_000_000_000]);
        for m in ms {
            for e in (-30i32..=45).chain([100, 200, 290, 300, 307, 308, -100, -300, -320, -323]) {
                if !ctx.mine() {
                    continue;
                }
                let plain = format!("{m}e{e}");
                let Ok(v) = plain.parse::<f64>() else { continue };
                check_literal(ctx, &format!("f{plain}"), &Want::Val(Value::Float(v)), "float-short-mantissa-with-exponent");
                if m % 7 == 0 {
                    check_literal(ctx, &format!("f-{m}E+{e}").replace("+-", "-"), &Want::Val(Value::Float(-v)), "float-short-mantissa-with-exponent");
                    let with_point = format!("{}.{}e{e}", m / 10, m % 10);
                    if let Ok(w) = with_point.parse::<f64>() {
                        check_literal(ctx, &format!("f{with_point}"), &Want::Val(Value::Float(w)), "float-short-mantissa-with-exponent");
                    }
                }
            }
        }
    }
    if ctx.mine() {
        check_literal(ctx, "f1e999", &Want::Val(Value::Float(f64::INFINITY)), "float-overflow-to-infinity");
        check_literal(ctx, "f-1e999", &Want::Val(Value::Float(f64::NEG_INFINITY)), "float-overflow-to-infinity");
        check_literal(ctx, "f1e-999", &Want::Val(Value::Float(0.0)), "float-underflow-to-zero");
        for (t, v) in [("f1e1000", f64::INFINITY), ("f1E1000", f64::INFINITY), ("f-1e+1000", f64::NEG_INFINITY), ("f1e99999999999999999999", f64::INFINITY), ("f1e-1000", 0.0), ("f-1e-1000", -0.0), ("f1e-99999999999999999999", 0.0),
            ("f0e1000", 0.0), ("f0e99999999999999999999", 0.0), ("f25e0004", 250000.0), ("f25e+0004", 250000.0), ("f25e-0004", 0.0025), ("f1e0000", 1.0), ("f1e00000000000000000000000000000001", 10.0), ("f1e0308", 1e308), ("f1e-0308", 1e-308),
            ("f.5e0010", 5e9), ("f1.5E0001", 15.0), ("f1e1234", f64::INFINITY), ("f1e-1234", 0.0)] {
            check_literal(ctx, t, &Want::Val(Value::Float(v)), "float-long-exponent");
        }
        check_literal(ctx, "f-0", &Want::Val(Value::Float(-0.0)), "float-negative-zero");
        check_literal(ctx, "f0.1", &Want::Val(Value::Float(0.1)), "float-shortest");
        // round-to-nearest-even at the 2^53 boundary
        check_literal(ctx, "f9007199254740993", &Want::Val(Value::Float(9007199254740992.0)), "float-rounding-ties-even");
        check_literal(ctx, "f9007199254740995", &Want::Val(Value::Float(9007199254740996.0)), "float-rounding-ties-even");
        check_literal(ctx, "f1.", &Want::Reject, "float-malformed");
        check_literal(ctx, "f1e", &Want::Ident, "float-shaped-identifier");
    }
    ctx.rng = rng;
}

/// The whole product of the spelling features of a float / decimal literal (sign, integer part, fraction, exponent marker,
/// exponent sign, exponent digits with leading zeros): the expected value is computed from the *parts*, re-assembled in one
/// canonical spelling, so that a mistake tied to one combination of features shows.
fn number_spelling_product(ctx: &mut Ctx) {
    ctx.align();
    let signs = ["", "+", "-"];
    let ints = ["", "0", "7", "25", "007", "100"];
    let fracs: [Option<&str>; 6] = [None, Some("0"), Some("25"), Some("250"), Some("007"), Some("5")];
    let exps = ["0", "2", "02", "002", "10", "010", "00", "22"];
    for sign in signs {
        for int in ints {
            for frac in fracs {
                if int.is_empty() && frac.is_none() {
                    continue;
                }
                let mant = format!("{sign}{int}{}", frac.map(|f| format!(".{f}")).unwrap_or_default());
                let neg = if sign == "-" { "-" } else { "" };
                let canon_mant = format!("{neg}{}.{}", if int.is_empty() { "0" } else { int }, frac.unwrap_or("0"));
                if ctx.mine() {
                    let v: f64 = canon_mant.parse().unwrap();
                    check_literal(ctx, &format!("f{mant}"), &Want::Val(Value::Float(v)), "float-spelling-product");
                    let dcanon = format!("{neg}{}{}", if int.is_empty() { "0" } else { int }, frac.map(|f| format!(".{f}")).unwrap_or_default());
                    if let Ok(d) = rust_decimal::Decimal::from_str_exact(&dcanon) {
                        check_literal(ctx, &format!("d{mant}"), &Want::Val(Value::Decimal(d)), "decimal-spelling-product");
                    }
                }
                for marker in ["e", "E"] {
                    for esign in signs {
                        for exp in exps {
                            if !ctx.mine() {
                                continue;
                            }
                            let e: i32 = exp.parse().unwrap();
                            let canon = format!("{canon_mant}e{}{e}", if esign == "-" { "-" } else { "" });
                            let v: f64 = canon.parse().unwrap();
                            check_literal(ctx, &format!("f{mant}{marker}{esign}{exp}"), &Want::Val(Value::Float(v)), "float-spelling-product");
                        }
                    }
                }
            }
        }
    }
}

/// Correct rounding, tested where it is hardest: the exact midpoint between two adjacent doubles
/// (ties to even) and the decimal strings one digit above and below it.
fn float_midpoints(ctx: &mut Ctx, n: usize) {
    let mut rng = ctx.rng.clone();
    for _ in 0..n {
        // x = m * 2^e with a full 53-bit m and e in [-26, -1] (everything fits u128); midpoint = (2m+1) * 2^(e-1) = (2m+1) * 5^(1-e) / 10^(1-e)
        let m: u64 = (1u64 << 52) | (rng.next() & ((1u64 << 52) - 1));
        let e: i32 = -1 - rng.below(26) as i32;
        let x = (m as f64) * 2f64.powi(e);
        let next = ((m + 1) as f64) * 2f64.powi(e);
        let k = (1 - e) as u32; // number of fractional digits of the midpoint
        let mid: u128 = (2 * m as u128 + 1) * 5u128.pow(k);
        let digits = mid.to_string();
        let tie_winner = if m % 2 == 0 { x } else { next };
        let neg = rng.chance(1, 2);
        let sgn = |f: f64| if neg { -f } else { f };
        let sign = if neg { "-" } else { "" };
        let body = place_point(&digits, k);
        check_literal(ctx, &format!("f{sign}{body}"), &Want::Val(Value::Float(sgn(tie_winner))), "float-exact-midpoint-ties-to-even");
        check_literal(ctx, &format!("f{sign}{body}000000000000000000001"), &Want::Val(Value::Float(sgn(next))), "float-just-above-midpoint");
        // the deciding digit far out: hundreds or thousands of zeros after the exact midpoint, then a 1 (still just above it)
        let far = [40usize, 300, 760, 800, 1_100, 5_000][rng.below(6)];
        check_literal(ctx, &format!("f{sign}{body}{}1", "0".repeat(far)), &Want::Val(Value::Float(sgn(next))), "float-just-above-midpoint-deciding-digit-far-out");
        check_literal(ctx, &format!("f{sign}{body}{}", "0".repeat(far)), &Want::Val(Value::Float(sgn(tie_winner))), "float-exact-midpoint-with-trailing-zeros");
        let below = (mid * 10 - 1).to_string();
        check_literal(ctx, &format!("f{sign}{}", place_point(&below, k + 1)), &Want::Val(Value::Float(sgn(x))), "float-just-below-midpoint");
    }
    ctx.rng = rng;
}

fn place_point(digits: &str, scale: u32) -> String {
    let scale = scale as usize;
    if scale == 0 {
        return digits.to_string();
    }
    if digits.len() > scale {
        let (a, b) = digits.split_at(digits.len() - scale);
        format!("{a}.{b}")
    } else {
        format!("0.{}{digits}", "0".repeat(scale - digits.len()))
    }
}

fn decimals(ctx: &mut Ctx, n: usize) {
    ctx.align();
    let mut rng = ctx.rng.clone();
    let max_m: u128 = (1u128 << 96) - 1;
    let mut cases: Vec<(u128, u32, bool)> = vec![(0, 0, false), (0, 5, false), (1, 0, false), (1, 28, false), (max_m, 0, false), (max_m, 28, true), (max_m, 14, false), (max_m - 1, 0, true), (5, 1, true), (150, 2, false), (10, 1, false), (100, 2, true)];
    for _ in 0..n {
        let bits = 1 + rng.below(96);
        let m = (rng.i128() as u128) & ((1u128 << bits) - 1);
        cases.push((m, rng.below(29) as u32, rng.chance(1, 2)));
    }
    for (m, scale, neg) in cases {
        if !ctx.mine() {
            continue;
        }
        let mut d = Decimal::from_i128_with_scale(m as i128, scale);
        d.set_sign_negative(neg);
        let want = Want::Val(Value::Decimal(d));
        let body = place_point(&m.to_string(), scale);
        let sign = if neg { "-" } else { "" };
        check_literal(ctx, &format!("d{sign}{body}"), &want, "decimal-scale-preserved");
        if !neg {
            check_literal(ctx, &format!("d+{body}"), &want, "decimal-plus-sign");
        }
        if let Some(rest) = body.strip_prefix("0.") {
            check_literal(ctx, &format!("d{sign}.{rest}"), &want, "decimal-no-leading-digit");
            if !neg {
                check_literal(ctx, &format!("d+.{rest}"), &want, "decimal-no-leading-digit");
            }
        }
        check_literal(ctx, &format!("d{sign}000{body}"), &want, "decimal-leading-zeros");
        // digits beyond the 28th fractional place: a parse error, or within one unit in the last kept place
        let mut tails: Vec<String> = vec![];
        if scale == 28 {
            let cap = if rng.chance(1, 8) { 60 } else { 8 };
            let extra = 1 + rng.below(cap);
            tails.push((0..extra).map(|_| char::from(b'0' + rng.below(10) as u8)).collect());
            if m == max_m {
                // the corner where rounding up does not fit the mantissa, on every run
                tails.push("9".into());
                tails.push("50000001".into());
                tails.push("4".into());
            }
        }
        for tail in tails {
            let text = format!("d{sign}{body}{tail}");
            ctx.count();
            ctx.hit("family:decimal-beyond-scale-28");
            ctx.nontrivial(fnv(text.as_bytes()));
            match guard(|| Expr::parse(&text)) {
                Ok(Ok(Expr::Value(Value::Decimal(g)))) => {
                    let unit = Decimal::from_i128_with_scale(1, 28);
                    let diff = (g - d).abs();
                    if g.scale() > 28 || diff > unit {
                        // one corner has its own signature: rounding up at the 28th digit would need a 97-bit
                        // mantissa, and the literal is then rounded at the 27th digit instead
                        let sig = if m == max_m && g.scale() == 27 { "C08 decimal-beyond-scale-28 rounding-carries-past-the-96-bit-mantissa" } else { "C08 decimal-beyond-scale-28" };
                        ctx.violation(sig, format!("rounded to {g}, more than one unit in the 28th place away from {d}"), json!({"text": text}));
                    }
                }
                // "rounded only beyond the type's 28 fractional digits": such a literal denotes the rounded value, it is not an error
                Ok(Err(e)) => ctx.violation("C08 decimal-beyond-scale-28 rejected", format!("a decimal literal with more than 28 fractional digits was rejected instead of rounded: {e}"), json!({"text": text})),
                other => ctx.violation("C08 decimal-beyond-scale-28", format!("unexpected outcome {}", clip(format!("{other:?}"), 200)), json!({"text": text})),
            }
        }
    }
    if ctx.mine() {
        for t in ["d79228162514264337593543950336", "d-79228162514264337593543950336", "d1e5", "d1.", "d"] {
            let want = if t == "d1e5" || t == "d" { Want::Ident } else { Want::Reject };
            let fam = if t == "d1e5" || t == "d" { "decimal-shaped-identifier" } else { "decimal-out-of-range" };
            check_literal(ctx, t, &want, fam);
        }
    }
    ctx.rng = rng;
}

fn esc_for(c: char) -> Option<&'static str> {
    Some(match c {
        '\n' => "\\n",
        '\r' => "\\r",
        '\t' => "\\t",
        '\\' => "\\\\",
        '\'' => "\\'",
        '"' => "\\\"",
        _ => return None,
    })
}

fn strings(ctx: &mut Ctx, astral_samples: usize) {
    ctx.align();
    let mut rng = ctx.rng.clone();
    // every scalar of the BMP raw (16 per literal), except the two that must be escaped
    let mut chunk = String::new();
    let flush = |ctx: &mut Ctx, chunk: &mut String| {
        if chunk.is_empty() {
            return;
        }
        if ctx.mine() {
            let text = format!("\"{chunk}\"");
            check_literal(ctx, &text, &Want::Val(Value::String(chunk.clone())), "string-raw-bmp");
        }
        chunk.clear();
    };
    for cp in 0u32..=0xFFFF {
        let Some(c) = char::from_u32(cp) else { continue };
        if c == '"' || c == '\\' {
            continue;
        }
        chunk.push(c);
        if chunk.chars().count() == 16 {
            flush(ctx, &mut chunk);
        }
    }
    flush(ctx, &mut chunk);
    for _ in 0..astral_samples / 16 + 1 {
        // this shard's own random sample (no partitioning: the streams differ per shard)
        let cp = 0x10000 + rng.below(0x100000) as u32;
        let Some(c) = char::from_u32(cp) else { continue };
        check_literal(ctx, &format!("\"a{c}b\""), &Want::Val(Value::String(format!("a{c}b"))), "string-raw-astral");
        check_literal(ctx, &format!("\"\\u{{{cp:x}}}\""), &Want::Val(Value::String(c.to_string())), "string-unicode-escape");
        check_literal(ctx, &format!("\"\\u{{{cp:06X}}}\""), &Want::Val(Value::String(c.to_string())), "string-unicode-escape");
    }
    // escapable characters: via their escape, raw where legal, and via \u{..} in all hex lengths
    ctx.align();
    for c in ['\n', '\r', '\t', '\\', '\'', '"', 'A', '\0', 'é', '\u{2028}', '\u{ffff}', '\u{10ffff}', '\u{d7ff}', '\u{e000}'] {
        if !ctx.mine() {
            continue;
        }
        let want = Want::Val(Value::String(format!("x{c}y")));
        if let Some(e) = esc_for(c) {
            check_literal(ctx, &format!("\"x{e}y\""), &want, "string-escape");
        }
        if c != '"' && c != '\\' {
            check_literal(ctx, &format!("\"x{c}y\""), &want, "string-raw");
        }
        let cp = c as u32;
        for width in 1..=12 {
            let hex = format!("{cp:0width$x}", width = width);
            if u32::from_str_radix(&hex, 16) == Ok(cp) {
                check_literal(ctx, &format!("\"x\\u{{{hex}}}y\""), &want, "string-unicode-escape");
                check_literal(ctx, &format!("\"x\\u{{{}}}y\"", hex.to_uppercase()), &want, "string-unicode-escape");
            }
        }
    }
    // \u{…} values beyond 10FFFF of every length, in particular those whose low 32 (or 21, 24) bits are a valid scalar value: all rejected
    for low in [0x41u64, 0x20ac, 0x1f600, 0x10ffff, 0x0] {
        for high in [0x1u64, 0xf, 0xabc, 0xffff_ffff, 0x1000_0000, 0x8000_0000] {
            for shift in [21u32, 24, 28, 32, 36, 40] {
                if !ctx.mine() {
                    continue;
                }
                let v = (high as u128) << shift | low as u128;
                if v <= 0x10ffff {
                    continue;
                }
                check_literal(ctx, &format!("\"x\\u{{{v:x}}}y\""), &Want::Reject, "string-unicode-escape-out-of-range");
                check_literal(ctx, &format!("\"x\\u{{{v:X}}}y\""), &Want::Reject, "string-unicode-escape-out-of-range");
                check_literal(ctx, &format!("\"x\\u{{000{v:x}}}y\""), &Want::Reject, "string-unicode-escape-out-of-range");
            }
        }
    }
    // sequences of escapes next to each other and next to quotes
    if ctx.mine() {
        let cases: Vec<(&str, &str)> = vec![
            ("\"\\\\\"", "\\"), ("\"\\\\\\\"\"", "\\\""), ("\"\\\"\\\"\"", "\"\""), ("\"\\\\n\"", "\\n"), ("\"\\n\\\\\"", "\n\\"), ("\"a//b\"", "a//b"), ("\"// not a comment\"", "// not a comment"),
            ("\"\"", ""), ("\" \"", " "), ("\"'\"", "'"), ("\"\\u{41}\\u{42}\"", "AB"), ("\"\\u{0041}\"", "A"), ("\"tab\there\"", "tab\there"), ("\"line\nbreak\"", "line\nbreak"), ("\"cr\r\nlf\"", "cr\r\nlf"),
        ];
        for (t, v) in cases {
            check_literal(ctx, t, &Want::Val(Value::String(v.to_string())), "string-escape-sequences");
        }
        for t in ["true", "false", "none"] {
            let v = match t {
                "true" => Value::Bool(true),
                "false" => Value::Bool(false),
                _ => Value::None,
            };
            check_literal(ctx, t, &Want::Val(v), "bool-none-literals");
        }
    }
    ctx.rng = rng;
}

/// strings assembled from raw characters of every class and escapes in every position; the
/// expected value is known from the pieces
fn mixed_strings(ctx: &mut Ctx, n: usize) {
    let mut rng = ctx.rng.clone();
    let raw: Vec<char> = "a Z9_-+*/.,;:!?()[]{}<>=&|^%@#$~`'\t\n\r\u{a0}éßÿĀαжא中日本\u{301}\u{200d}\u{2028}\u{feff}\u{fffd}\u{1F600}\u{10FFFF}\u{e000}\u{d7ff}\0\u{7f}".chars().collect();
    let escapes: [(&str, char); 6] = [("\\n", '\n'), ("\\r", '\r'), ("\\t", '\t'), ("\\\\", '\\'), ("\\'", '\''), ("\\\"", '"')];
    for _ in 0..n {
        let len = 1 + rng.below(12);
        let mut text = String::from("\"");
        let mut want = String::new();
        let mut has_escape = false;
        let mut non_ascii_before_escape = false;
        for _ in 0..len {
            match rng.below(5) {
                0 | 1 | 2 => {
                    let c = raw[rng.below(raw.len())];
                    text.push(c);
                    want.push(c);
                }
                3 => {
                    let (e, c) = escapes[rng.below(escapes.len())];
                    if !has_escape && !want.is_ascii() {
                        non_ascii_before_escape = true;
                    }
                    has_escape = true;
                    text.push_str(e);
                    want.push(c);
                }
                _ => {
                    let c = raw[rng.below(raw.len())];
                    if !has_escape && !want.is_ascii() {
                        non_ascii_before_escape = true;
                    }
                    has_escape = true;
                    let w = 1 + rng.below(11);
                    let hex = format!("{:0w$x}", c as u32, w = w);
                    text.push_str(&format!("\\u{{{}}}", if rng.chance(1, 2) { hex.to_uppercase() } else { hex }));
                    want.push(c);
                }
            }
        }
        text.push('"');
        if non_ascii_before_escape {
            ctx.hit("strings:non-ascii-before-first-escape");
        }
        check_literal(ctx, &text, &Want::Val(Value::String(want)), "string-mixed-raw-and-escapes");
    }
    ctx.rng = rng;
}

/// keyword / identifier / literal-shaped collisions: judged by the reference lexer+parser
fn words(ctx: &mut Ctx) {
    let mut ws: Vec<String> = vec![];
    for k in KEYWORDS.iter().take(34) {
        ws.push(k.to_string());
        for suffix in ["y", "1", "_", "_x", "s", "E"] {
            ws.push(format!("{k}{suffix}"));
        }
        for cut in 1..k.len() {
            ws.push(k[..cut].to_string());
        }
        ws.push(k.to_uppercase());
        let mut cs: Vec<char> = k.chars().collect();
        cs[0] = cs[0].to_ascii_uppercase();
        ws.push(cs.into_iter().collect());
    }
    for w in ["i5", "i5x", "i", "ix", "i_5", "i-5", "i+5", "i5_", "f1", "f1e", "f1e5", "f1e5x", "f1x", "f", "fe5", "f1E", "d1", "d1x", "d", "dx", "d1_0", "0x1g", "0xg", "0x", "0b12", "0b2", "0b", "0o9", "0o",
        "true1", "truex", "nonex", "none1", "falsey", "x0x1", "a1", "a_", "a__b", "A", "Z9", "if1", "in1", "int1", "inty", "integer", "ands", "orx", "o", "an", "el", "then1", "elsee", "somex", "is_", "is_some1", "date", "date_", "to_", "to_upperx"]
    {
        ws.push(w.to_string());
    }
    // ordinary words that are NOT keywords must stay identifiers: plausible keyword candidates, method-like names, every 1- and 2-letter word
    for w in ["starts", "ends", "starts_with", "ends_with", "key", "keys", "val", "value", "values", "not", "xor", "mod", "div", "rem", "len", "length", "size", "count", "let", "fn", "rule", "rules", "match", "elif", "elseif", "null", "nil", "nan", "inf", "infinity", "NaN",
        "True", "False", "None", "Some", "TRUE", "is", "is_none_", "isnone", "is_null", "has", "have", "with", "without", "where", "when", "unless", "while", "for", "do", "end", "begin", "return", "case", "of", "as", "by", "at", "on", "like", "between", "all", "any", "each", "every",
        "min", "max", "abs", "sum", "avg", "ceil", "trunc", "sqrt", "pow", "exp", "log", "sign", "neg", "add", "sub", "mult", "mul", "eq", "neq", "ne", "gt", "gte", "ge", "lt", "lte", "le", "bitand", "bitor", "bit_and", "bit_or", "bitwise", "shl", "shr", "not_equals", "equals",
        "string", "str", "text", "char", "bool", "boolean", "number", "num", "integer", "decimal", "double", "list", "vec", "map", "dict", "object", "index", "idx", "field", "get", "set", "put", "ref", "reference", "symbol", "sym", "func", "function", "call", "apply", "lambda",
        "now", "today", "time", "timestamp", "dt", "dur", "days", "hours", "minutes", "seconds", "weeks", "months", "years", "millis", "date_time_", "datetimes", "upper", "lower", "to_uppercase", "to_lowercase", "to_string", "to_int", "to_float", "strip", "ltrim", "rtrim", "replace", "split", "join", "concat", "substr", "matches", "regex",
        "contain", "contained", "includes", "include", "within", "inside", "exists", "defined", "empty", "is_empty", "unwrap", "option", "ok", "err", "error", "fail", "try", "catch", "throw", "assert", "input", "output", "facts", "this", "self", "it", "_", "__", "_0", "_a", "a0", "x_y_z"] {
        ws.push(w.to_string());
    }
    // long identifiers: a name is an identifier whatever its length
    for n in [64usize, 127, 128, 254, 255, 256, 257, 511, 512, 1_000, 4_096, 65_536, 70_000] {
        ws.push("abcdefghij".repeat(n / 10 + 1)[..n].to_string());
        ws.push(format!("i{}", "x_1".repeat(n / 3 + 1))[..n].to_string());
    }
    for a in b'a'..=b'z' {
        ws.push((a as char).to_string());
        for b in b'a'..=b'z' {
            ws.push(format!("{}{}", a as char, b as char));
        }
    }
    ws.sort();
    ws.dedup();
    ctx.align();
    for w in ws {
        for ctxt in ["{}", "{}(a)", "a.{}", "{{{}: a}}", ":{}", "{} + i1", "[{}, a]", "a contains {}", "-{}", "{}.b"] {
            if !ctx.mine() {
                continue;
            }
            let text = ctxt.replace("{{", "\u{1}").replace("}}", "\u{2}").replace("{}", &w).replace('\u{1}', "{").replace('\u{2}', "}");
            ctx.begin(|| format!("words\t{text}"));
            ctx.count();
            ctx.hit("family:keyword-identifier-collisions");
            ctx.nontrivial(fnv(text.as_bytes()));
            match compare_text(&text) {
                Outcome::Agree { accepted } => {
                    ctx.hit(if accepted { "words:accepted" } else { "words:rejected" });
                    ctx.sample("keyword-identifier-collisions", || json!({"text": text, "accepted": accepted}));
                }
                Outcome::Open | Outcome::AgreeAmbiguous { .. } => {}
                Outcome::Mismatch { class, detail } => ctx.violation(format!("C08 word-lexing {class}"), format!("a word was lexed differently from longest-match / exact-keyword rules: {text}"), json!({"text": text, "detail": clip(detail, 800)})),
            }
        }
    }
}

const SEPARATORS: [&str; 22] = [" ", "\t", "\n", "\r\n", "\u{a0}", "\u{2028}", "// c\n", "//\r\n", "  \n\t ", "// a // b\n\n", "\u{3000}", "\u{85}", "\r", "// c\r", "//\r", "\u{c}", "// é \"q\" \\\n",
    // a comment runs to the end of the LINE (\n or \r), whatever else it contains
    "// x\u{2028}+ i9\n", "// x\u{2029}y\u{85}z\u{b}w\u{c}v\n", "//\t// /* */ \u{feff}\n", "\u{2029}", "\u{b}"];

fn layout(ctx: &mut Ctx, n: usize) {
    let pool = pool();
    let mut rng = ctx.rng.clone();
    let (_, fields) = std_facts(&pool, &mut rng);
    let cfg = GenCfg { fns: vec!["fun"], symbols: vec![("sym".into(), "Int")], fields, chaos: 30 };
    for _ in 0..n {
        let want = crate::pools::TYPES[rng.below(10)];
        let depth = 1 + rng.below(3);
        let e = Gen { rng: &mut rng, pool: &pool, cfg: &cfg }.gen(want, depth);
        let Some(text) = to_text_random(&e, &mut rng) else { continue };
        let Ok(spans) = lex_spans(&text) else { continue };
        let base = match guard(|| Expr::parse(&text)) {
            Ok(Ok(t)) => t,
            _ => continue, // C07 judges whether it should have parsed
        };
        ctx.hit(&format!("layout:tokens{}", spans.len().min(20)));
        for variant in 0..3 {
            // re-join the raw tokens with separators drawn at random; "nothing" only where the
            // reference lexer re-lexes the concatenation into the same two tokens
            let mut out = String::new();
            if rng.chance(1, 2) {
                out.push_str(SEPARATORS[rng.below(SEPARATORS.len())]);
            }
            for (i, (_, a, b)) in spans.iter().enumerate() {
                out.push_str(&text[*a..*b]);
                if i + 1 < spans.len() {
                    let (_, na, nb) = &spans[i + 1];
                    let fused = format!("{}{}", &text[*a..*b], &text[*na..*nb]);
                    let can_fuse = match lex_spans(&fused) {
                        Ok(v) => v.len() == 2 && v[0].2 == b - a,
                        Err(_) => false,
                    };
                    let want_nothing = variant == 0 || rng.chance(1, 3);
                    if can_fuse && want_nothing {
                        ctx.hit("layout:no-separator");
                    } else {
                        let k = 1 + rng.below(2);
                        for _ in 0..k {
                            let s = SEPARATORS[rng.below(SEPARATORS.len())];
                            out.push_str(s);
                            ctx.hit(&format!("layout:sep:{}", s.escape_default()));
                        }
                    }
                }
            }
            match rng.below(3) {
                0 => out.push_str(SEPARATORS[rng.below(SEPARATORS.len())]),
                1 => out.push_str(" // trailing comment without newline"),
                _ => {}
            }
            // the relaid text must still consist of the same tokens according to the reference lexer
            // (a '/' directly followed by a "//" comment, for instance, is a comment, not a division)
            if crate::refparse::lex(&out).ok() != crate::refparse::lex(&text).ok() {
                ctx.hit("layout:skipped-separator-fused-with-a-token");
                continue;
            }
            ctx.begin(|| format!("layout\t{out}"));
            ctx.count();
            ctx.hit("family:layout");
            ctx.nontrivial(fnv(out.as_bytes()));
            match guard(|| Expr::parse(&out)) {
                Ok(Ok(t)) if t == base => ctx.sample("layout", || json!({"original": clip(text.clone(), 150), "relaid": clip(out.clone(), 250)})),
                Ok(Ok(t)) => ctx.violation("C08 layout changed-tree", "whitespace / comments between tokens changed the parsed tree".to_string(), json!({"original": text, "relaid": out, "tree": clip(format!("{base:?}"), 600), "tree_relaid": clip(format!("{t:?}"), 600)})),
                Ok(Err(e)) => ctx.violation("C08 layout rejected", "whitespace / comments between tokens made a valid text unparsable".to_string(), json!({"original": text, "relaid": out, "error": clip(e.to_string(), 300)})),
                Err(p) => ctx.violation("C08 layout panic", p, json!({"relaid": out})),
            }
        }
    }
    ctx.rng = rng;
}

fn run(ctx: &mut Ctx) {
    ints(ctx, ctx.tier.of(1_500, 40_000));
    floats(ctx, ctx.tier.of(1_500, 40_000));
    number_spelling_product(ctx);
    float_midpoints(ctx, ctx.tier.of(300, 6_000));
    decimals(ctx, ctx.tier.of(6_000, 150_000));
    strings(ctx, ctx.tier.of(3_000, 60_000));
    mixed_strings(ctx, ctx.tier.of(2_000, 40_000));
    words(ctx);
    layout(ctx, ctx.tier.of(6_000, 60_000));
}

fn finish(m: &Merged, tier: Tier) -> Finish {
    let mut f = Finish {
        rule: "value -> text written by the harness -> Expr::parse -> must be exactly that value (Int exact, Float by bits, Decimal by value and scale, String by characters): i128 boundaries and random values in decimal / hex / octal / binary with signs and leading zeros; finite doubles (boundaries + random bit patterns + subnormals) in shortest, scientific, exact-expansion, no-leading-digit forms; decimals from (96-bit mantissa, scale <= 28, sign) with the point placed by the generator and digits beyond scale 28; every BMP scalar raw, astral samples, every escape and \\u{hex} width/case; scientific forms with zero-padded and very long exponents; keyword prefixes/extensions, ~250 plausible non-keywords, every 1- and 2-letter word and literal-shaped words in 10 syntactic contexts judged by the reference lexer; generated token sequences re-joined with 12 kinds of whitespace/comment separators (or nothing where the reference lexer says the neighbours cannot fuse). Every case is non-trivial; distinct by text".into(),
        exhaustive: false,
        exhaustive_part: "all 65,534 legal raw BMP characters; all keyword words x contexts; escape table".into(),
        ..Default::default()
    };
    let need = [
        ("int-decimal", 500), ("int-hex", 200), ("int-octal", 200), ("int-binary", 200), ("int-out-of-range", 5), ("float-shortest", 500), ("float-scientific", 500), ("float-exact-expansion", 100), ("float-exact-midpoint-ties-to-even", 1_000), ("float-just-above-midpoint", 1_000), ("float-just-below-midpoint", 1_000),
        ("decimal-scale-preserved", tier.of(5_000, 50_000)), ("decimal-beyond-scale-28", 100), ("string-raw-bmp", 3_900), ("string-unicode-escape", 1_000), ("string-escape", 6), ("string-mixed-raw-and-escapes", 10_000), ("keyword-identifier-collisions", 3_000), ("layout", tier.of(50_000, 500_000)), ("float-spelling-product", 4_000), ("decimal-spelling-product", 90),
    ];
    for (fam, min) in need {
        f.floors.push(floor(format!("family {fam}: {} (floor {min})", m.c(&format!("family:{fam}"))), m.c(&format!("family:{fam}")) >= min as u64));
    }
    let seps = m.prefix_count("layout:sep:");
    f.floors.push(floor(format!("separator kinds used: {seps}/22, token pairs joined by nothing: {}", m.c("layout:no-separator")), seps == 22 && m.c("layout:no-separator") >= 1_000));
    f.extras.insert("families".into(), json!(m.prefix_map("family:")));
    f.extras.insert("layout".into(), json!(m.prefix_map("layout:")));
    f.extras.insert("words".into(), json!(m.prefix_map("words:")));
    f.assumptions = vec![
        "float texts are produced by Rust's own Display/LowerExp (shortest round-trip and exact expansions are std's); 'nearest double' for other digit strings is checked on exact midpoints between adjacent doubles (ties to even) and the strings one digit above / below them, computed in u128".into(),
        "Decimal values are built with from_i128_with_scale; rust_decimal's equality and scale() are trusted".into(),
    ];
    f
}
