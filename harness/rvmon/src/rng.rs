//! In-tree PRNG (SplitMix64 seeding, xoshiro256** stream). All randomness of the monitors comes
//! from here, seeded from (VERIF_SEED, property, shard).

#[derive(Clone)]
pub struct Rng {
    s: [u64; 4],
}

pub fn splitmix(x: &mut u64) -> u64 {
    *x = x.wrapping_add(0x9E37_79B9_7F4A_7C15);
    let mut z = *x;
    z = (z ^ (z >> 30)).wrapping_mul(0xBF58_476D_1CE4_E5B9);
    z = (z ^ (z >> 27)).wrapping_mul(0x94D0_49BB_1331_11EB);
    z ^ (z >> 31)
}

/// FNV-1a, used for case signatures (stable across runs and platforms).
pub fn fnv(bytes: &[u8]) -> u64 {
    let mut h: u64 = 0xcbf2_9ce4_8422_2325;
    for b in bytes {
        h ^= *b as u64;
        h = h.wrapping_mul(0x0000_0100_0000_01B3);
    }
    h
}

impl Rng {
    pub fn new(seed: u64, prop: &str, shard: u64) -> Self {
        let mut x = seed ^ fnv(prop.as_bytes()).rotate_left(17) ^ shard.wrapping_mul(0xA24B_AED4_963E_E407);
        let s = [splitmix(&mut x), splitmix(&mut x), splitmix(&mut x), splitmix(&mut x)];
        Rng { s }
    }

    pub fn next(&mut self) -> u64 {
        let r = self.s[1].wrapping_mul(5).rotate_left(7).wrapping_mul(9);
        let t = self.s[1] << 17;
        self.s[2] ^= self.s[0];
        self.s[3] ^= self.s[1];
        self.s[1] ^= self.s[2];
        self.s[0] ^= self.s[3];
        self.s[2] ^= t;
        self.s[3] = self.s[3].rotate_left(45);
        r
    }

    /// uniform in 0..n (n > 0)
    pub fn below(&mut self, n: usize) -> usize {
        debug_assert!(n > 0);
        ((self.next() as u128 * n as u128) >> 64) as usize
    }

    pub fn range(&mut self, lo: i64, hi_incl: i64) -> i64 {
        lo + self.below((hi_incl - lo + 1) as usize) as i64
    }

    pub fn chance(&mut self, num: usize, den: usize) -> bool {
        self.below(den) < num
    }

    pub fn pick<'a, T>(&mut self, xs: &'a [T]) -> &'a T {
        &xs[self.below(xs.len())]
    }

    pub fn i128(&mut self) -> i128 {
        (((self.next() as u128) << 64) | self.next() as u128) as i128
    }

    pub fn shuffle<T>(&mut self, xs: &mut [T]) {
        for i in (1..xs.len()).rev() {
            let j = self.below(i + 1);
            xs.swap(i, j);
        }
    }
}
