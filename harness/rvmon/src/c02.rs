//! C02 — every operator and built-in yields exactly what the operator table prescribes, and a
//! composite expression evaluates to the composition of its sub-results.

use crate::core::{floor, Ctx, Finish, Merged, Property, Tier};
use crate::evalcommon::*;
use crate::gen::{kind, walk, ALL_KINDS, BINARY, UNARY};
use crate::pools::small_pool;
use crate::refeval::{compare, ErrExp, Exp, Obs, Pay};
use crate::rng::fnv;
use crate::workload::{self, Case};
use reval::expr::Expr;
use reval::value::Value;
use serde_json::json;

pub const PROP: Property = Property { id: "C02", run, finish, shards: |_| 16, expect_s: |t| t.of(45, 500) };

pub fn judge(ctx: &mut Ctx, c: Case) {
    ctx.begin(|| format!("{}\t{} on {:?}", if c.cell.is_empty() { kind(c.expr).to_string() } else { c.cell.clone() }, show_expr(c.expr), c.facts));
    ctx.count();
    let (exp, wide) = eval_ref(c.expr, c.facts);
    let obs = eval_real(c.expr, c.facts);
    if !c.cell.is_empty() {
        ctx.hit(&format!("cell:{}", c.cell));
    }
    ctx.hit(&format!("family:{}", c.family));
    if c.cell.is_empty() || ctx.evaluations % 64 == 0 {
        walk(c.expr, &mut |n| ctx.hit(&format!("kind:{}", kind(n))));
    } else {
        ctx.hit(&format!("kind:{}", kind(c.expr)));
    }
    // non-trivial: not a bare type error at the root of a depth-1 case
    let trivial = matches!(&exp, Err(e) if e.allowed == crate::refeval::cls::INVALID_TYPE) && !c.cell.is_empty();
    if !trivial {
        ctx.nontrivial(fnv(format!("{:?}|{:?}", c.expr, c.facts).as_bytes()));
    }
    match &exp {
        Ok(_) => ctx.hit("expected:value"),
        Err(e) => ctx.hit(&format!("expected:{}", crate::refeval::cls::names(e.allowed))),
    }
    if wide {
        ctx.hit("skipped:cell-left-open-by-the-statements");
        if matches!(obs, Obs::Panic(_)) {
            // still never a panic, but that is C01's verdict; here it is only noted
            ctx.hit("skipped:open-cell-panicked");
        }
        return;
    }
    if let Some(mis) = compare(&exp, &obs) {
        // the signature names the smallest failing sub-expression and *its* kind of mismatch
        let (cell, sub, mis_class) = if !c.cell.is_empty() {
            (c.cell.clone(), None, mis.clone())
        } else {
            match localize(c.expr, c.facts) {
                Some((sub, m)) => (node_cell(sub, c.facts), Some(show_expr(sub)), m),
                None => (format!("{}(composition)", kind(c.expr)), None, mis.clone()),
            }
        };
        let mut cj = case_json(c.expr, c.facts, &obs, &exp);
        if let Some(s) = sub {
            cj["smallest_failing_subtree"] = json!(s);
        }
        ctx.violation(format!("C02 {mis_class} {cell}"), format!("implementation and operator table disagree ({mis})"), cj);
    } else {
        let key = match &obs {
            Obs::Val(_) => format!("ok:{}", c.family),
            _ => format!("err:{}", c.family),
        };
        ctx.sample(&key, || case_json(c.expr, c.facts, &obs, &exp));
    }
}

/// Oracle self-test: deliberately wrong expectations must be flagged by `compare`, otherwise the
/// oracle is vacuous and the run is inconclusive.
fn canaries(ctx: &mut Ctx) {
    let none = Value::None;
    let cases: Vec<(Expr, Exp)> = vec![
        (Expr::gt(Expr::value(1), Expr::value(1)), Ok(Value::Bool(true))),
        (Expr::sub(Expr::value(5), Expr::value(3)), Ok(Value::Int(-2))),
        (Expr::add(Expr::value(1), Expr::value(1.0)), Ok(Value::Float(2.0))),
        (Expr::round(Expr::value(2.5)), Ok(Value::Float(2.0))),
        (Expr::div(Expr::value(1), Expr::value(0)), Err(ErrExp { allowed: crate::refeval::cls::INVALID_TYPE, pay: Pay::Any, range: false, wide: false, cell: "x".into() })),
        (Expr::int(Expr::value("x".to_string())), Err(ErrExp { allowed: crate::refeval::cls::INVALID_CAST, pay: Pay::Val(Value::String("y".into())), range: false, wide: false, cell: "x".into() })),
        (Expr::value(0.0), Ok(Value::Float(-0.0))),
        (Expr::value(rust_decimal::Decimal::new(10, 1)), Ok(Value::Decimal(rust_decimal::Decimal::new(1, 0)))),
    ];
    for (e, wrong) in cases {
        let obs = eval_real(&e, &none);
        if compare(&wrong, &obs).is_some() {
            ctx.hit("canary:flagged");
        } else {
            ctx.hit("canary:missed");
        }
        // and the true expectation must agree
        let (right, _) = eval_ref(&e, &none);
        if compare(&right, &obs).is_none() {
            ctx.hit("canary:true-expectation-agrees");
        }
    }
}

/// All compositions of depth 2 over the reduced pool: outer(inner(a, b), c), outer(c, inner(a, b)),
/// unary(inner(a, b)), outer(unary(a), b).
fn depth2(ctx: &mut Ctx, stride: usize) {
    let none = Value::None;
    let sp = small_pool();
    let j = |ctx: &mut Ctx, c: Case| judge(ctx, c);
    let mut k = 0usize;
    // unary(binary(a,b)) and binary(unary(a), b)
    for (_, u) in UNARY.iter() {
        for (_, b) in BINARY.iter() {
            for x in &sp {
                for y in &sp {
                    k += 1;
                    if k % stride != 0 || !ctx.mine() {
                        continue;
                    }
                    let e = u(b(Expr::value(x.clone()), Expr::value(y.clone())));
                    j(ctx, Case { expr: &e, facts: &none, cell: String::new(), family: "depth2-unary-of-binary" });
                    let e = b(u(Expr::value(x.clone())), Expr::value(y.clone()));
                    j(ctx, Case { expr: &e, facts: &none, cell: String::new(), family: "depth2-binary-of-unary" });
                }
            }
        }
    }
    // unary(unary(a))
    for (_, u1) in UNARY.iter() {
        for (_, u2) in UNARY.iter() {
            for x in &sp {
                if !ctx.mine() {
                    continue;
                }
                let e = u1(u2(Expr::value(x.clone())));
                j(ctx, Case { expr: &e, facts: &none, cell: String::new(), family: "depth2-unary-of-unary" });
            }
        }
    }
    // binary(binary(a,b), c) and binary(c, binary(a,b))
    for (_, o) in BINARY.iter() {
        for (_, i) in BINARY.iter() {
            for x in &sp {
                for y in &sp {
                    for z in &sp {
                        k += 1;
                        if k % (stride * 8) != 0 || !ctx.mine() {
                            continue;
                        }
                        let inner = i(Expr::value(x.clone()), Expr::value(y.clone()));
                        let e = o(inner.clone(), Expr::value(z.clone()));
                        j(ctx, Case { expr: &e, facts: &none, cell: String::new(), family: "depth2-binary-left" });
                        let e = o(Expr::value(z.clone()), inner);
                        j(ctx, Case { expr: &e, facts: &none, cell: String::new(), family: "depth2-binary-right" });
                    }
                }
            }
        }
    }
}

/// Both operands of a binary node are the *same* expression (a field, an index step, a symbol-free path into the input): the
/// result must be what the operator table gives for (v, v) — a shortcut for structurally identical operands would show here.
fn identical_operands(ctx: &mut Ctx) {
    let pool = workload::the_pool();
    ctx.align();
    for v in pool.all.iter() {
        let facts = Value::Map(
            [("a".to_string(), v.clone()), ("xs".to_string(), Value::Vec(vec![v.clone(), v.clone()])), ("m".to_string(), Value::Map([("k".to_string(), v.clone())].into_iter().collect()))].into_iter().collect(),
        );
        for (_, b) in BINARY.iter() {
            if !ctx.mine() {
                continue;
            }
            let operands = [
                Expr::Reference("a".to_string()),
                Expr::index(Expr::Reference("xs".to_string()), reval::expr::Index::from(0usize)),
                Expr::index(Expr::Reference("xs".to_string()), reval::expr::Index::from(1usize)),
                Expr::index(Expr::Reference("m".to_string()), reval::expr::Index::from("k")),
                Expr::index(Expr::Reference("facts".to_string()), reval::expr::Index::from("a")),
            ];
            for o in &operands {
                let e = b(o.clone(), o.clone());
                judge(ctx, Case { expr: &e, facts: &facts, cell: String::new(), family: "identical-operands" });
            }
            let e = b(operands[1].clone(), operands[2].clone());
            judge(ctx, Case { expr: &e, facts: &facts, cell: String::new(), family: "identical-operands" });
        }
    }
}

fn run(ctx: &mut Ctx) {
    if ctx.shard == 0 {
        canaries(ctx);
    }
    let pool = workload::the_pool();
    let mut j = |ctx: &mut Ctx, c: Case| judge(ctx, c);
    workload::depth1(ctx, &pool, &mut j);
    workload::chains(ctx, &mut j);
    let n_rand = ctx.tier.of(300_000, 6_000_000);
    workload::random_operands(ctx, n_rand, &mut j);
    workload::string_families(ctx, &mut j);
    workload::big_operands(ctx, &mut j);
    workload::deep_expressions(ctx, &mut j);
    // quick: a 1/16 systematic sample of the depth-2 product; thorough: all of unary/binary mixes
    // and 1/8 of binary-in-binary (17*17*34^3*2 = 22.7 M would be the full product)
    identical_operands(ctx);
    depth2(ctx, ctx.tier.of(4, 1));
    let n = ctx.tier.of(400_000, 12_000_000);
    workload::random(ctx, &pool, n, ctx.tier.of(5, 6), &mut j);
}

fn finish(m: &Merged, tier: Tier) -> Finish {
    let kinds_hit = ALL_KINDS.iter().filter(|k| m.c(&format!("kind:{k}")) > 0).count();
    let (cells_hit, cells_total) = crate::c01::cell_floor(m);
    let mut f = Finish {
        rule: "every case is evaluated by reval and by the independent reference evaluator E2 and the outcomes compared (values structurally, Float by bits with NaN=NaN, Decimal by value and scale; errors by admissible variant and the payload the statement fixes). Cases: the depth-1 product over the boundary pool (incl. leap-second datetimes), depth-2 chains, random operands, the string families of workload.rs (small-alphabet contains, every low character through trim / case mapping, numeric- and date-looking strings), random compositions, the same through text. Non-trivial = everything except a bare type error at the root of a depth-1 case; distinct by hash of (tree, input)".into(),
        exhaustive: false,
        exhaustive_part: format!(
            "depth-1 product over the whole pool and the boundary chains are complete; depth-2 compositions over the 34-value reduced pool are {}",
            tier.of("a 1/4 (unary/binary mixes) and 1/32 (binary in binary) systematic sample", "complete for unary/binary mixes and a 1/8 systematic sample for binary in binary")
        ),
        ..Default::default()
    };
    f.floors.push(floor(format!("all 47 Expr variants evaluated ({kinds_hit}/47)"), kinds_hit == 47));
    f.floors.push(floor(format!("operator x operand-type cells hit ({cells_hit}/{cells_total})"), cells_hit == cells_total));
    f.floors.push(floor(format!("oracle self-test: {} wrong expectations flagged, {} missed", m.c("canary:flagged"), m.c("canary:missed")), m.c("canary:flagged") == 8 && m.c("canary:missed") == 0 && m.c("canary:true-expectation-agrees") == 8));
    f.extras.insert("cells_hit".into(), json!(cells_hit));
    f.extras.insert("cells_total".into(), json!(cells_total));
    f.extras.insert("kinds_hit".into(), json!(kinds_hit));
    f.extras.insert("families".into(), json!(m.prefix_map("family:")));
    f.extras.insert("expected_outcome_classes".into(), json!(m.prefix_map("expected:")));
    f.extras.insert("skipped".into(), json!(m.prefix_map("skipped:")));
    let min_cell = m.counters.iter().filter(|(k, _)| k.starts_with("cell:")).map(|(_, v)| *v).min().unwrap_or(0);
    f.extras.insert("min_hits_per_cell".into(), json!(min_cell));
    f.assumptions = vec![
        "DateTime - DateTime with an operand that is a leap-second representation (nanosecond part >= 10^9) is taken from chrono's own subtraction: the language does not define how leap seconds count, and chrono's rule (one leap second assumed, counted depending on the time-of-day order of the operands) is the only definition there is. All other date arithmetic is computed independently".into(),
        "the operator table is the one recorded in DESIGN.md section 2/E2 (the repository documents none); cells the statements leave open (i128::MIN % -1, Decimal division overflow class) accept any listed outcome".into(),
        "E2 trusts Rust i128/f64 arithmetic, rust_decimal, chrono and std string functions — the libraries reval itself delegates to; it checks dispatch, operand order, error mapping, range handling and composition".into(),
    ];
    if tier == Tier::Thorough && crate::core::profile_name() == "verif" {
        crate::fuzzleg::attach(&mut f, "C02", 150);
    }
    f
}
