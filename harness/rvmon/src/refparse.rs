//! E3 — reference lexer (maximal munch, priorities from the statement of C08) and a
//! precedence-climbing parser for the table of C07. It builds `reval::expr::Expr` values through
//! the enum variants directly (not through reval's constructor functions).

use reval::expr::{Expr, Index};
use reval::value::Value;
use rust_decimal::Decimal;
use std::collections::BTreeMap;
use std::str::FromStr;

#[derive(Clone, Debug, PartialEq)]
pub enum Tok {
    /// operators and punctuation, by spelling
    P(&'static str),
    /// keyword tokens, by spelling
    K(&'static str),
    Str(String),
    Int(String),
    Hex(String),
    Oct(String),
    Bin(String),
    Float(String),
    Dec(String),
    Ident(String),
    Index(String),
}

pub const PUNCT: [&str; 27] = ["==", "!=", ">=", "<=", "=", ">", "<", "+", "-", "*", "/", "%", "!", "&", "|", "^", "@", ",", ":", ";", ".", "(", ")", "[", "]", "{", "}"];

pub const KW: [&str; 34] = [
    "and", "or", "if", "then", "else", "is_some", "is_none", "none", "some", "int", "float", "dec", "contains", "in", "date_time", "datetime", "duration", "to_upper", "to_lower", "uppercase",
    "lowercase", "trim", "round", "floor", "fract", "year", "month", "week", "day", "hour", "minute", "second", "true", "false",
];

fn is_digit(c: u8) -> bool {
    c.is_ascii_digit()
}

/// longest FLOAT / DECIMAL literal at the start of `s` (which starts with the prefix letter)
fn scan_number(s: &[u8], exponent: bool) -> usize {
    // prefix [+-]? [0-9]* \.? [0-9]+ ([eE][-+]?[0-9]+)?
    let mut i = 1;
    if i < s.len() && (s[i] == b'+' || s[i] == b'-') {
        i += 1;
    }
    let d1_start = i;
    while i < s.len() && is_digit(s[i]) {
        i += 1;
    }
    let d1_end = i;
    let mut end = 0;
    if d1_end > d1_start {
        end = d1_end; // digits only
    }
    if i < s.len() && s[i] == b'.' {
        let mut j = i + 1;
        while j < s.len() && is_digit(s[j]) {
            j += 1;
        }
        if j > i + 1 {
            end = j; // [digits] . digits
        }
    }
    if end == 0 {
        return 0;
    }
    if exponent && end < s.len() && (s[end] == b'e' || s[end] == b'E') {
        let mut j = end + 1;
        if j < s.len() && (s[j] == b'+' || s[j] == b'-') {
            j += 1;
        }
        let ds = j;
        while j < s.len() && is_digit(s[j]) {
            j += 1;
        }
        if j > ds {
            end = j;
        }
    }
    end
}

fn scan_string(s: &str) -> usize {
    // "[^"\\]*(?:\\.[^"\\]*)*"   ('.' = any character except \n)
    let mut it = s.char_indices();
    match it.next() {
        Some((_, '"')) => {}
        _ => return 0,
    }
    while let Some((i, c)) = it.next() {
        match c {
            '"' => return i + 1,
            '\\' => match it.next() {
                Some((_, '\n')) | None => return 0,
                Some(_) => {}
            },
            _ => {}
        }
    }
    0
}

#[derive(Debug, Clone, PartialEq)]
pub struct LexError(pub usize);

pub fn lex(text: &str) -> Result<Vec<Tok>, LexError> {
    lex_spans(text).map(|v| v.into_iter().map(|(t, _, _)| t).collect())
}

/// tokens with their byte spans
pub fn lex_spans(text: &str) -> Result<Vec<(Tok, usize, usize)>, LexError> {
    let mut toks = vec![];
    let mut pos = 0;
    let bytes = text.as_bytes();
    while pos < text.len() {
        let rest = &text[pos..];
        let rb = &bytes[pos..];
        // layout: whitespace (Unicode White_Space) and // comments
        let c = rest.chars().next().unwrap();
        if c.is_whitespace() {
            pos += c.len_utf8();
            continue;
        }
        if rest.starts_with("//") {
            let mut i = 2;
            while i < rb.len() && rb[i] != b'\n' && rb[i] != b'\r' {
                i += 1;
            }
            while i < rb.len() && (rb[i] == b'\n' || rb[i] == b'\r') {
                i += 1;
            }
            pos += i;
            continue;
        }
        // candidates: (length, priority tier [3 = literal, 2 = literal regex, 1 = ident/index], token)
        let mut best: Option<(usize, u8, Tok)> = None;
        let mut offer = |len: usize, tier: u8, t: Tok| {
            if len == 0 {
                return;
            }
            match &best {
                Some((l, p, _)) if (*l, *p) >= (len, tier) => {}
                _ => best = Some((len, tier, t)),
            }
        };
        for p in PUNCT {
            if rest.starts_with(p) {
                offer(p.len(), 3, Tok::P(p));
            }
        }
        for k in KW {
            if rest.starts_with(k) {
                offer(k.len(), 3, Tok::K(k));
            }
        }
        if c == '"' {
            let n = scan_string(rest);
            if n > 0 {
                offer(n, 2, Tok::Str(rest[..n].to_string()));
            }
        }
        if c == 'i' {
            let mut i = 1;
            if i < rb.len() && (rb[i] == b'+' || rb[i] == b'-') {
                i += 1;
            }
            let ds = i;
            while i < rb.len() && is_digit(rb[i]) {
                i += 1;
            }
            if i > ds {
                offer(i, 2, Tok::Int(rest[..i].to_string()));
            }
        }
        if c == '0' && rb.len() > 2 {
            let (radix_ok, kind): (fn(u8) -> bool, u8) = match rb[1] {
                b'x' => (|b: u8| b.is_ascii_hexdigit(), 0),
                b'o' => (|b: u8| (b'0'..=b'8').contains(&b), 1), // the lexer's class is [0-8]; '8' is rejected later
                b'b' => (|b: u8| b == b'0' || b == b'1', 2),
                _ => (|_| false, 9),
            };
            if kind != 9 {
                let mut i = 2;
                while i < rb.len() && radix_ok(rb[i]) {
                    i += 1;
                }
                if i > 2 {
                    let t = rest[..i].to_string();
                    offer(i, 2, match kind {
                        0 => Tok::Hex(t),
                        1 => Tok::Oct(t),
                        _ => Tok::Bin(t),
                    });
                }
            }
        }
        if c == 'f' {
            let n = scan_number(rb, true);
            if n > 0 {
                offer(n, 2, Tok::Float(rest[..n].to_string()));
            }
        }
        if c == 'd' {
            let n = scan_number(rb, false);
            if n > 0 {
                offer(n, 2, Tok::Dec(rest[..n].to_string()));
            }
        }
        if c.is_ascii_alphabetic() {
            let mut i = 1;
            while i < rb.len() && (rb[i].is_ascii_alphanumeric() || rb[i] == b'_') {
                i += 1;
            }
            offer(i, 1, Tok::Ident(rest[..i].to_string()));
        }
        if c.is_ascii_digit() {
            let mut i = 1;
            while i < rb.len() && is_digit(rb[i]) {
                i += 1;
            }
            offer(i, 1, Tok::Index(rest[..i].to_string()));
        }
        match best {
            Some((len, _, t)) => {
                toks.push((t, pos, pos + len));
                pos += len;
            }
            None => return Err(LexError(pos)),
        }
    }
    Ok(toks)
}

// ---------------------------------------------------------------------------------------------
// literal denotations

fn parse_radix(digits: &str, radix: u32) -> Option<i128> {
    let mut v: i128 = 0;
    for c in digits.chars() {
        let d = c.to_digit(radix)? as i128;
        v = v.checked_mul(radix as i128)?.checked_add(d)?;
    }
    Some(v)
}

fn parse_int(body: &str) -> Option<i128> {
    // [+-]? digits, exact, checked (negative accumulates downwards so that i128::MIN is reachable)
    let (neg, digits) = match body.as_bytes()[0] {
        b'-' => (true, &body[1..]),
        b'+' => (false, &body[1..]),
        _ => (false, body),
    };
    let mut v: i128 = 0;
    for c in digits.chars() {
        let d = c.to_digit(10)? as i128;
        v = v.checked_mul(10)?;
        v = if neg { v.checked_sub(d)? } else { v.checked_add(d)? };
    }
    Some(v)
}

#[derive(Debug, Clone, PartialEq)]
pub enum Unesc {
    Ok(String),
    Bad,
    /// a form the statement does not cover (unterminated \u{…, sign inside \u{…}): either answer
    Open,
}

pub fn unescape(body: &str) -> Unesc {
    let mut out = String::new();
    let mut it = body.chars().peekable();
    while let Some(c) = it.next() {
        if c != '\\' {
            out.push(c);
            continue;
        }
        match it.next() {
            Some('n') => out.push('\n'),
            Some('r') => out.push('\r'),
            Some('t') => out.push('\t'),
            Some('\\') => out.push('\\'),
            Some('\'') => out.push('\''),
            Some('"') => out.push('"'),
            Some('u') => {
                if it.next() != Some('{') {
                    return Unesc::Bad;
                }
                let mut hex = String::new();
                let mut closed = false;
                for h in it.by_ref() {
                    if h == '}' {
                        closed = true;
                        break;
                    }
                    hex.push(h);
                }
                if !closed {
                    return Unesc::Open;
                }
                if hex.starts_with('+') && hex.len() > 1 && hex[1..].chars().all(|c| c.is_ascii_hexdigit()) {
                    return Unesc::Open;
                }
                if hex.is_empty() || !hex.chars().all(|c| c.is_ascii_hexdigit()) {
                    return Unesc::Bad;
                }
                let hex = hex.trim_start_matches('0');
                if hex.len() > 6 {
                    return Unesc::Bad;
                }
                let v = if hex.is_empty() { 0 } else { u32::from_str_radix(hex, 16).unwrap() };
                match char::from_u32(v) {
                    Some(ch) => out.push(ch),
                    None => return Unesc::Bad,
                }
            }
            _ => return Unesc::Bad,
        }
    }
    Unesc::Ok(out)
}

// ---------------------------------------------------------------------------------------------
// parser

#[derive(Clone, Copy, PartialEq, Eq, Debug)]
pub enum Mode {
    /// contains/in takes access-level operands (the pinned grammar)
    Pinned,
    /// contains/in takes unary-level operands (plain reading of the table)
    Plain,
}

#[derive(Debug, Clone, PartialEq)]
pub enum Parsed<T> {
    Accept(T),
    Reject(String),
    /// the input uses a form the statements leave open; no verdict
    Open,
}

struct Parser<'a> {
    toks: &'a [Tok],
    pos: usize,
    mode: Mode,
    open: bool,
}

type PR<T> = Result<T, String>;

fn bx(e: Expr) -> Box<Expr> {
    Box::new(e)
}

/// binary levels 1..5 of the table, loosest first: (tokens, constructor)
fn binary_level(level: usize, t: &Tok) -> Option<fn(Box<Expr>, Box<Expr>) -> Expr> {
    match (level, t) {
        (1, Tok::K("and")) => Some(Expr::And),
        (1, Tok::K("or")) => Some(Expr::Or),
        (2, Tok::P("==")) | (2, Tok::P("=")) => Some(Expr::Equals),
        (2, Tok::P("!=")) => Some(Expr::NotEquals),
        (2, Tok::P(">")) => Some(Expr::GreaterThan),
        (2, Tok::P("<")) => Some(Expr::LessThan),
        (2, Tok::P(">=")) => Some(Expr::GreaterThanEquals),
        (2, Tok::P("<=")) => Some(Expr::LessThanEquals),
        (3, Tok::P("+")) => Some(Expr::Add),
        (3, Tok::P("-")) => Some(Expr::Sub),
        (4, Tok::P("*")) => Some(Expr::Mult),
        (4, Tok::P("/")) => Some(Expr::Div),
        (4, Tok::P("%")) => Some(Expr::Rem),
        (5, Tok::P("&")) => Some(Expr::BitAnd),
        (5, Tok::P("|")) => Some(Expr::BitOr),
        (5, Tok::P("^")) => Some(Expr::BitXor),
        _ => None,
    }
}

fn builtin(k: &str) -> Option<fn(Box<Expr>) -> Expr> {
    Some(match k {
        "int" => Expr::Int,
        "float" => Expr::Float,
        "dec" => Expr::Dec,
        "date_time" | "datetime" => Expr::DateTime,
        "duration" => Expr::Duration,
        "is_some" | "some" => Expr::Some,
        "is_none" | "none" => Expr::None,
        "to_upper" | "uppercase" => Expr::UpperCase,
        "to_lower" | "lowercase" => Expr::LowerCase,
        "trim" => Expr::Trim,
        "round" => Expr::Round,
        "floor" => Expr::Floor,
        "fract" => Expr::Fract,
        "year" => Expr::Year,
        "month" => Expr::Month,
        "week" => Expr::Week,
        "day" => Expr::Day,
        "hour" => Expr::Hour,
        "minute" => Expr::Minute,
        "second" => Expr::Second,
        _ => return None,
    })
}

impl Parser<'_> {
    fn peek(&self) -> Option<&Tok> {
        self.toks.get(self.pos)
    }
    fn peek2(&self) -> Option<&Tok> {
        self.toks.get(self.pos + 1)
    }
    fn eat(&mut self, t: &Tok) -> bool {
        if self.peek() == Some(t) {
            self.pos += 1;
            true
        } else {
            false
        }
    }
    fn expect(&mut self, t: Tok) -> PR<()> {
        if self.eat(&t) {
            Ok(())
        } else {
            Err(format!("expected {t:?} at token {}", self.pos))
        }
    }

    fn expr(&mut self) -> PR<Expr> {
        self.if_expr()
    }

    fn if_expr(&mut self) -> PR<Expr> {
        if self.eat(&Tok::K("if")) {
            let c = self.if_expr()?;
            self.expect(Tok::K("then"))?;
            let t = self.if_expr()?;
            self.expect(Tok::K("else"))?;
            let f = self.if_expr()?;
            return Ok(Expr::If(bx(c), bx(t), bx(f)));
        }
        self.binary(1)
    }

    /// left-associative binary levels 1..=5
    fn binary(&mut self, level: usize) -> PR<Expr> {
        if level > 5 {
            return self.contains();
        }
        let mut left = self.binary(level + 1)?;
        while let Some(ctor) = self.peek().and_then(|t| binary_level(level, t)) {
            self.pos += 1;
            let right = self.binary(level + 1)?;
            left = ctor(bx(left), bx(right));
        }
        Ok(left)
    }

    fn contains(&mut self) -> PR<Expr> {
        let start = self.pos;
        let left = self.unary()?;
        let left_had_unary = matches!(self.toks.get(start), Some(Tok::P("-")) | Some(Tok::P("!")));
        let op = match self.peek() {
            Some(Tok::K("contains")) => "contains",
            Some(Tok::K("in")) => "in",
            _ => return Ok(left),
        };
        if self.mode == Mode::Pinned && left_had_unary {
            return Err("unary operator in a contains/in operand position".into());
        }
        self.pos += 1;
        let right = match self.mode {
            Mode::Pinned => self.access()?,
            Mode::Plain => self.unary()?,
        };
        // non-associative: a second contains/in cannot follow
        if matches!(self.peek(), Some(Tok::K("contains")) | Some(Tok::K("in"))) {
            return Err("chained contains/in".into());
        }
        Ok(if op == "contains" { Expr::Contains(bx(left), bx(right)) } else { Expr::Contains(bx(right), bx(left)) })
    }

    fn unary(&mut self) -> PR<Expr> {
        if self.eat(&Tok::P("-")) {
            return Ok(Expr::Neg(bx(self.unary()?)));
        }
        if self.eat(&Tok::P("!")) {
            return Ok(Expr::Not(bx(self.unary()?)));
        }
        self.access()
    }

    fn access(&mut self) -> PR<Expr> {
        let mut e = self.atom()?;
        while self.eat(&Tok::P(".")) {
            match self.peek().cloned() {
                Some(Tok::Ident(name)) => {
                    self.pos += 1;
                    e = Expr::Index(bx(e), Index::Map(name));
                }
                Some(Tok::Index(digits)) => {
                    self.pos += 1;
                    let i = usize::from_str(&digits).map_err(|_| "list index out of range".to_string())?;
                    e = Expr::Index(bx(e), Index::Vec(i));
                }
                _ => return Err("expected a field name or an index after '.'".into()),
            }
        }
        Ok(e)
    }

    fn atom(&mut self) -> PR<Expr> {
        let t = self.peek().cloned().ok_or_else(|| "unexpected end of input".to_string())?;
        match t {
            Tok::K("none") if self.peek2() != Some(&Tok::P("(")) => {
                self.pos += 1;
                Ok(Expr::Value(Value::None))
            }
            Tok::K("true") => {
                self.pos += 1;
                Ok(Expr::Value(Value::Bool(true)))
            }
            Tok::K("false") => {
                self.pos += 1;
                Ok(Expr::Value(Value::Bool(false)))
            }
            Tok::K(k) => match builtin(k) {
                Some(ctor) => {
                    self.pos += 1;
                    self.expect(Tok::P("("))?;
                    let a = self.expr()?;
                    self.expect(Tok::P(")"))?;
                    Ok(ctor(bx(a)))
                }
                None => Err(format!("keyword {k} cannot start an expression")),
            },
            Tok::Ident(name) => {
                self.pos += 1;
                if self.eat(&Tok::P("(")) {
                    let a = self.expr()?;
                    self.expect(Tok::P(")"))?;
                    Ok(Expr::Function(name, bx(a)))
                } else {
                    Ok(Expr::Reference(name))
                }
            }
            Tok::P(":") => {
                self.pos += 1;
                match self.peek().cloned() {
                    Some(Tok::Ident(name)) => {
                        self.pos += 1;
                        Ok(Expr::Symbol(name))
                    }
                    _ => Err("expected a symbol name after ':'".into()),
                }
            }
            Tok::P("(") => {
                self.pos += 1;
                let e = self.expr()?;
                self.expect(Tok::P(")"))?;
                Ok(e)
            }
            Tok::P("[") => {
                self.pos += 1;
                let mut items = vec![];
                loop {
                    if self.eat(&Tok::P("]")) {
                        break;
                    }
                    items.push(self.expr()?);
                    if self.eat(&Tok::P(",")) {
                        continue; // one trailing comma is allowed: "[a,]"
                    }
                    self.expect(Tok::P("]"))?;
                    break;
                }
                Ok(Expr::Vec(items))
            }
            Tok::P("{") => {
                self.pos += 1;
                let mut items = BTreeMap::new();
                loop {
                    if self.eat(&Tok::P("}")) {
                        break;
                    }
                    let key = match self.peek().cloned() {
                        Some(Tok::Ident(k)) => k,
                        _ => return Err("expected a map key".into()),
                    };
                    self.pos += 1;
                    self.expect(Tok::P(":"))?;
                    let v = self.expr()?;
                    items.insert(key, v); // a repeated key keeps the last entry
                    if self.eat(&Tok::P(",")) {
                        continue;
                    }
                    self.expect(Tok::P("}"))?;
                    break;
                }
                Ok(Expr::Map(items))
            }
            Tok::Str(raw) => {
                self.pos += 1;
                match unescape(&raw[1..raw.len() - 1]) {
                    Unesc::Ok(s) => Ok(Expr::Value(Value::String(s))),
                    Unesc::Bad => Err("bad string escape".into()),
                    Unesc::Open => {
                        self.open = true;
                        Ok(Expr::Value(Value::String(String::new())))
                    }
                }
            }
            Tok::Int(raw) => {
                self.pos += 1;
                parse_int(&raw[1..]).map(|v| Expr::Value(Value::Int(v))).ok_or_else(|| "integer literal out of range".into())
            }
            Tok::Hex(raw) => {
                self.pos += 1;
                parse_radix(&raw[2..], 16).map(|v| Expr::Value(Value::Int(v))).ok_or_else(|| "hex literal out of range".into())
            }
            Tok::Oct(raw) => {
                self.pos += 1;
                parse_radix(&raw[2..], 8).map(|v| Expr::Value(Value::Int(v))).ok_or_else(|| "octal literal invalid or out of range".into())
            }
            Tok::Bin(raw) => {
                self.pos += 1;
                parse_radix(&raw[2..], 2).map(|v| Expr::Value(Value::Int(v))).ok_or_else(|| "binary literal out of range".into())
            }
            Tok::Float(raw) => {
                self.pos += 1;
                f64::from_str(&raw[1..]).map(|v| Expr::Value(Value::Float(v))).map_err(|_| "float literal".into())
            }
            Tok::Dec(raw) => {
                self.pos += 1;
                Decimal::from_str(&raw[1..]).map(|v| Expr::Value(Value::Decimal(v))).map_err(|_| "decimal literal out of range".into())
            }
            other => Err(format!("unexpected token {other:?}")),
        }
    }
}

pub fn parse_tokens(toks: &[Tok], mode: Mode) -> Parsed<Expr> {
    let mut p = Parser { toks, pos: 0, mode, open: false };
    let r = p.expr();
    let r = match r {
        Ok(e) if p.pos == toks.len() => Ok(e),
        Ok(_) => Err(format!("trailing input at token {}", p.pos)),
        Err(e) => Err(e),
    };
    if p.open {
        return Parsed::Open;
    }
    match r {
        Ok(e) => Parsed::Accept(e),
        Err(m) => Parsed::Reject(m),
    }
}

/// What `Expr::parse(text)` may answer: one verdict, or (in the one zone the table leaves
/// ambiguous) a rejection or the plain-table tree.
pub enum Verdict {
    One(Parsed<Expr>),
    Either { pinned: Parsed<Expr>, plain: Parsed<Expr> },
}

pub fn parse_expr(text: &str) -> Verdict {
    let toks = match lex(text) {
        Ok(t) => t,
        Err(LexError(p)) => return Verdict::One(Parsed::Reject(format!("no token at byte {p}"))),
    };
    let a = parse_tokens(&toks, Mode::Pinned);
    let b = parse_tokens(&toks, Mode::Plain);
    if a == b {
        Verdict::One(a)
    } else {
        Verdict::Either { pinned: a, plain: b }
    }
}

/// The rule grammar: (@key: expr;)* expr
pub struct RuleParts {
    pub meta: Vec<(String, Expr)>,
    pub expr: Expr,
}

pub fn parse_rule_tokens(text: &str) -> Parsed<RuleParts> {
    let toks = match lex(text) {
        Ok(t) => t,
        Err(LexError(p)) => return Parsed::Reject(format!("no token at byte {p}")),
    };
    let mut p = Parser { toks: &toks, pos: 0, mode: Mode::Pinned, open: false };
    let mut meta = vec![];
    let r: PR<Expr> = (|| {
        while p.eat(&Tok::P("@")) {
            let key = match p.peek().cloned() {
                Some(Tok::Ident(k)) => k,
                _ => return Err("expected a metadata key".to_string()),
            };
            p.pos += 1;
            p.expect(Tok::P(":"))?;
            let e = p.expr()?;
            p.expect(Tok::P(";"))?;
            meta.push((key, e));
        }
        let e = p.expr()?;
        if p.pos != toks.len() {
            return Err("trailing input".into());
        }
        Ok(e)
    })();
    if p.open {
        return Parsed::Open;
    }
    match r {
        Ok(expr) => Parsed::Accept(RuleParts { meta, expr }),
        Err(m) => Parsed::Reject(m),
    }
}
