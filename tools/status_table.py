#!/usr/bin/env python3
"""Regenerates the quick-tier status table of DESIGN.md section 0 from evidence/*.json (maintenance tool, not a registered check).
Run after a full quick run so that every evidence file is of the quick tier."""
import json, os, re
root = os.path.dirname(os.path.dirname(os.path.abspath(__file__)))
def fmt(n):
    if n >= 1_000_000: return f"{n/1e6:.1f} M"
    if n >= 10_000: return f"{n/1e3:.0f} k"
    return f"{n:,}"
rows = []
for i in range(1, 20):
    pid = f"C{i:02d}"
    e = json.load(open(os.path.join(root, 'evidence', pid + '.json')))
    c = e['coverage']
    w = e['wall_s']
    rows.append((pid, fmt(c['evaluations']), fmt(c['distinct_nontrivial']), ("<1 s" if w < 1 else f"{w:.0f} s"), e['tier']))
assert all(r[4] == 'quick' for r in rows), [r for r in rows if r[4] != 'quick']
half = (len(rows) + 1) // 2
lines = ["| prop | cases | distinct non-trivial | wall | | prop | cases | distinct non-trivial | wall |", "|---|---|---|---|---|---|---|---|---|"]
for k in range(half):
    a = rows[k]; b = rows[k + half] if k + half < len(rows) else ("", "", "", "")
    lines.append(f"| {a[0]} | {a[1]} | {a[2]} | {a[3]} | | {b[0]} | {b[1]} | {b[2]} | {b[3]} |")
table = "\n".join(lines) + "\n"
d = open(os.path.join(root, 'DESIGN.md')).read()
new = re.sub(r"\| prop \| cases \| distinct non-trivial \| wall \| \| prop \| cases \| distinct non-trivial \| wall \|\n\|---\|---\|---\|---\|---\|---\|---\|---\|---\|\n(?:\|.*\n)+", lambda _: table, d, count=1)
open(os.path.join(root, 'DESIGN.md'), 'w').write(new)
print(table)
