#!/bin/sh
# tools/coverage.sh — reach audit (not a registered check): builds rvmon with LLVM source-based
# coverage, runs every shard-based quick workload, and prints line/region coverage of /repo/src (and of
# the lalrpop-generated parser). Evidence of what the monitors' workloads actually execute in reval.
set -eu
H=$(cd "$(dirname "$0")/../harness" && pwd)
B=$(dirname "$(ls ~/.rustup/toolchains/nightly-*/lib/rustlib/*/bin/llvm-profdata | head -1)")
COV="$H/target/cov"
mkdir -p "$COV/prof"
find "$COV/prof" -name '*.profraw' -delete
export LLVM_PROFILE_FILE="$COV/prof/%p-%m.profraw"
( cd "$H" && RUSTFLAGS="-Cinstrument-coverage" CARGO_TARGET_DIR="$COV" cargo +nightly build --offline --quiet --profile verif -p rvmon )
for p in C01 C02 C03 C04 C05 C06 C07 C08 C09 C10 C11 C12 C13 C14 C15 C16 C17; do
    RVMON_NO_EVIDENCE=1 RVMON_OUT="$COV/out" "$COV/verif/rvmon" run $p quick >/dev/null 2>&1 || echo "note: $p did not exit 0 under instrumentation"
done
"$B/llvm-profdata" merge -sparse "$COV"/prof/*.profraw -o "$COV/all.profdata"
"$B/llvm-cov" report -instr-profile="$COV/all.profdata" "$COV/verif/rvmon" --sources /repo/src $(find "$COV/verif/build" -name reval.rs | head -1) | cut -c1-30,100-160
# the instrumented build scripts drop profiles into the crate directory they run in
find /repo -maxdepth 1 -name 'default_*.profraw' -delete
