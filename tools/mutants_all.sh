#!/bin/sh
# tools/mutants_all.sh [ids...] — re-validate seeded changes against the current monitors (not a registered check).
# For every seeded/<id>/ it applies patch.diff to a scratch worktree and runs the quick tier of the checks named
# in meta.json's caught_by; prints one line per mutant and a summary. ~1 min per mutant.
HERE=$(cd "$(dirname "$0")/.." && pwd)
export MUTWT=${MUTWT:-/tmp/verif-mutwt-all}
ok=0; bad=0; list=""
for d in ${@:-$(ls "$HERE/seeded")}; do
    meta="$HERE/seeded/$d/meta.json"
    [ -f "$meta" ] || continue
    checks=$(jq -r '.caught_by | keys[] | select(test("quick")) | split(" ")[0]' "$meta" | sort -u | tr '\n' ' ')
    tier=quick
    if [ -z "$checks" ]; then
        # caught by the thorough tier only (e.g. a wall-clock limit of a minute)
        checks=$(jq -r '.caught_by | keys[] | select(test("thorough")) | split(" ")[0]' "$meta" | sort -u | tr '\n' ' ')
        tier=thorough
    fi
    out=$(TIER=$tier SKIP_TESTS=1 "$HERE/tools/mutcheck.sh" "$HERE/seeded/$d/patch.diff" $checks 2>&1)
    if echo "$out" | grep -q "exit=1"; then ok=$((ok+1)); echo "CAUGHT $d by $(echo "$out" | grep 'exit=1' | cut -d' ' -f1 | tr '\n' ' ')";
    else bad=$((bad+1)); list="$list $d"; echo "MISSED $d ($(echo "$out" | tr '\n' ' ' | cut -c1-200))"; fi
done
echo "summary: $ok caught, $bad missed:$list"
git -C /repo worktree remove --force "$MUTWT" 2>/dev/null
