#!/bin/sh
# tools/mutcheck.sh <patch.diff> <Cxx> [<Cxx> ...]
# Mutation validation helper (never part of a registered check): applies a patch to a scratch
# worktree of /repo under /tmp/verif-mutwt, confirms the repository's own tests still pass, runs the
# named checks' quick tier against the scratch copy (VERIF_REPO), prints one line per check and
# restores the worktree. The worktree and its build output are kept between calls for speed;
# remove with: git -C /repo worktree remove --force /tmp/verif-mutwt
set -u
PATCH=$(readlink -f "$1"); shift
WT=${MUTWT:-/tmp/verif-mutwt}
HERE=$(cd "$(dirname "$0")/.." && pwd)
if [ ! -d "$WT" ]; then git -C /repo worktree add -q --detach "$WT" HEAD || exit 2; fi
git -C "$WT" checkout -q --detach "$(git -C /repo rev-parse HEAD)" 2>/dev/null
git -C "$WT" checkout -q -- . && git -C "$WT" clean -fdq -e target -e target-verif
if ! git -C "$WT" apply "$PATCH"; then echo "PATCH-DOES-NOT-APPLY $PATCH"; exit 2; fi
if [ "${SKIP_TESTS:-0}" != 1 ]; then
    if ( cd "$WT" && cargo test --offline >"$WT/target-tests.log" 2>&1 ); then
        echo "repo-tests: pass ($(grep -c '^test .* ok$' "$WT/target-tests.log") ok)"
    else
        echo "repo-tests: FAIL (mutant is not admissible)"; grep -E "^test .*FAILED|^error" "$WT/target-tests.log" | head -5
    fi
fi
if [ -n "${DEMO:-}" ]; then
    # the demonstration must fail with the change and pass without it
    mkdir -p "$WT/examples"; cp "$DEMO" "$WT/examples/zz_demo.rs"
    ( cd "$WT" && cargo run --offline -q --example zz_demo >/dev/null 2>&1 ); with=$?
    git -C "$WT" apply -R "$PATCH"
    ( cd "$WT" && cargo run --offline -q --example zz_demo >/dev/null 2>&1 ); without=$?
    git -C "$WT" apply "$PATCH"
    rm -f "$WT/examples/zz_demo.rs"
    echo "demo: exit $with with the change, exit $without without it"
fi
for id in "$@"; do
    out=$(cd "$HERE" && VERIF_REPO="$WT" ./check "$id" "${TIER:-quick}" 2>&1)
    code=$?
    sig=$(echo "$out" | grep -m3 "signature:" | sed 's/^ *signature: //' | tr '\n' '|')
    echo "$id exit=$code $(echo "$out" | grep -c '^VIOLATION') violation(s) $sig"
    if [ $code -eq 2 ]; then echo "$out" | grep -m3 INCONCLUSIVE; fi
done
git -C "$WT" checkout -q -- . && git -C "$WT" clean -fdq -e target -e target-verif
