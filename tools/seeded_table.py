#!/usr/bin/env python3
"""Regenerates the table of seeded changes in DESIGN.md section 7 from seeded/*/meta.json (a maintenance tool, not a registered check)."""
import json, glob, re, os
root = os.path.dirname(os.path.dirname(os.path.abspath(__file__)))
rows = []
stats = {}
for p in sorted(glob.glob(os.path.join(root, 'seeded/*/meta.json'))):
    m = json.load(open(p))
    caught = '; '.join(f"{k}: `{v}`" for k, v in m.get('caught_by', {}).items()) or '**NOT CAUGHT**'
    miss = m.get('missed_at_first')
    if miss:
        caught += ' — **missed at first**' + (f': {miss}' if isinstance(miss, str) else '')
    esc = lambda s: str(s).replace('|', '\\|').replace('\n', ' ')
    rows.append(f"| {m['id']} | {esc(m['title'])} | {esc(m.get('needs_to_manifest', ''))} | {esc(caught)} |")
    r = stats.setdefault(m.get('round', 1), [0, 0]); r[0] += 1; r[1] += 1 if miss else 0
table = "| id | change | needs | caught by |\n|---|---|---|---|\n" + "\n".join(rows) + "\n"
d = open(os.path.join(root, 'DESIGN.md')).read()
new = re.sub(r"\| id \| change \| needs \| caught by \|\n\|---\|---\|---\|---\|\n(?:\|.*\n)+", lambda _: table, d, count=1)
open(os.path.join(root, 'DESIGN.md'), 'w').write(new)
print(len(rows), 'rows;', {k: tuple(v) for k, v in sorted(stats.items())}, 'total missed at first:', sum(v[1] for v in stats.values()))
