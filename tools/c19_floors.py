#!/usr/bin/env python3
"""Maintenance tool (never run by a registered check): lists the crashing C19 cells of evidence/C19.json that
known_findings.json does not list yet, with a depth floor at 30 % of the measured first crash. Existing entries are
never changed. Use after the probe grid was extended, on the unchanged tree, and review the diff before committing."""
import json, os, sys
root = os.path.dirname(os.path.dirname(os.path.abspath(__file__)))
ev = json.load(open(os.path.join(root, 'evidence/C19.json')))
table = None
def find(o):
    global table
    if isinstance(o, dict):
        for k, v in o.items():
            if k == 'threshold_table': table = v
            else: find(v)
    elif isinstance(o, list):
        for v in o: find(v)
find(ev)
kf_path = os.path.join(root, 'known_findings.json')
kf = json.load(open(kf_path))
have = {f['signature'] for f in kf['findings'] if f['property'] == 'C19'}
added = 0
for row in table:
    fc = row.get('first_crash')
    if not fc: continue
    sig = f"C19 crash op={row['op']} construct={row['construct']} stack={row['stack']} profile={row['profile']}"
    if sig in have: continue
    d = fc['depth']; floor = max(1, int(d * 0.3))
    kf['findings'].append({"property": "C19", "status": "open", "signature": sig, "min_depth": floor, "measured_first_crash": d,
        "what": f"{row['op']} of a {row['construct']} expression nested ~{d} levels deep overflows the {row['stack']} stack ({row['profile']} build) and aborts the process (recursive {row['op']}); listed from depth {floor}",
        "witness": f"rvmon stackprobe {row['op']} {row['construct']} {d} {row['stack']}"})
    added += 1
json.dump(kf, open(kf_path, 'w'), indent=1, ensure_ascii=False)
print('added', added, 'cells; total C19 entries', sum(1 for f in kf['findings'] if f['property'] == 'C19'))
